#!/usr/bin/env python3
"""Frame sizes of every function of the rscel library crate, from the compiler's own `.stack_sizes` section
(`-Z emit-stack-sizes`, read with the toolchain's llvm-readobj). Nothing is executed: the crate is compiled to an
object file and the section is read.

Cached under /verif/.cache/stack/<tree-hash>/<profile>.json as {"frames": {demangled symbol without hash: max size}}.
profiles: dev (what `cargo test` / `cargo build` produce), opt (the `release-with-debug` profile of the workspace:
opt-level 3 without LTO - with LTO the per-crate object is bitcode and has no frames yet).
Exit status 2 = could not build (not a verdict)."""
import fcntl, glob, json, os, re, shutil, subprocess, sys, time

sys.path.insert(0, os.path.dirname(os.path.abspath(__file__)))
import build_facts as bf

PROFILES = {"dev": [], "opt": ["--profile", "release-with-debug"]}
OUTDIR = {"dev": "debug", "opt": "release-with-debug"}


def log(*a):
    print("[stack]", *a, file=sys.stderr, flush=True)


def readobj(repo):
    sr = subprocess.run(["rustc", "--print", "sysroot"], cwd=repo, check=True, capture_output=True, text=True).stdout.strip()
    c = glob.glob(os.path.join(sr, "lib", "rustlib", "*", "bin", "llvm-readobj"))
    if not c:
        # the pinned toolchain carries no llvm-tools: any llvm-readobj reads the ELF section (sibling toolchains, then the system's)
        c = sorted(glob.glob(os.path.join(os.path.dirname(sr), "*", "lib", "rustlib", "*", "bin", "llvm-readobj")))
    if not c:
        c = [x for x in (shutil.which("llvm-readobj"), shutil.which("llvm-readobj-14")) if x]
    if not c:
        log("llvm-readobj not found in", sr)
        sys.exit(2)
    return c[0]


def build(profile="dev", repo=None):
    repo = repo or bf.REPO
    os.makedirs(bf.CACHE, exist_ok=True)
    lock = open(os.path.join(bf.CACHE, "lock-stack"), "w")
    fcntl.flock(lock, fcntl.LOCK_EX)
    try:
        th = bf.tree_hash(repo)
        out = os.path.join(bf.CACHE, "stack", th, profile + ".json")
        if os.path.exists(out):
            return out
        t0 = time.time()
        target = os.path.join(bf.CACHE, "target-stack")
        for fp in glob.glob(os.path.join(target, OUTDIR[profile], ".fingerprint", "rscel-*")):
            shutil.rmtree(fp, ignore_errors=True)
        for o in glob.glob(os.path.join(target, OUTDIR[profile], "deps", "rscel-*.o")):
            os.remove(o)
        env = dict(os.environ, CARGO_TARGET_DIR=target, CARGO_NET_OFFLINE="true", RUSTFLAGS="-Z emit-stack-sizes -Awarnings")
        env.pop("RUSTC_WRAPPER", None)
        env.pop("RUSTC_WORKSPACE_WRAPPER", None)
        cmd = ["cargo", "rustc", "--offline", "-q", "-p", "rscel", "--lib"] + PROFILES[profile] + ["--", "--emit=obj"]
        log(" ".join(cmd), "(tree %s)" % th)
        r = subprocess.run(cmd, cwd=repo, env=env, capture_output=True, text=True)
        if r.returncode != 0:
            log("BUILD FAILED", r.stderr[-3000:])
            sys.exit(2)
        objs = glob.glob(os.path.join(target, OUTDIR[profile], "deps", "rscel-*.o"))
        if len(objs) != 1:
            log("expected one object file, found", objs)
            sys.exit(2)
        txt = subprocess.run([readobj(repo), "--stack-sizes", "--demangle", objs[0]], capture_output=True, text=True).stdout
        rows = re.findall(r"Functions: \[(.*?)\]\s*\n\s*Size: (0x[0-9a-fA-F]+)", txt)
        if len(rows) < 500:
            log("only %d stack-size records - is the object machine code?" % len(rows))
            sys.exit(2)
        frames = {}
        for names, size in rows:
            for nm in names.split(", "):
                nm = re.sub(r"::h[0-9a-f]{16}$", "", nm.strip())
                frames[nm] = max(frames.get(nm, 0), int(size, 16))
        os.makedirs(os.path.dirname(out), exist_ok=True)
        with open(out + ".tmp", "w") as f:
            json.dump({"tree": th, "profile": profile, "records": len(rows), "frames": frames, "built_s": round(time.time() - t0, 1)}, f)
        os.replace(out + ".tmp", out)
        root = os.path.join(bf.CACHE, "stack")
        olds = sorted((os.path.getmtime(os.path.join(root, d)), d) for d in os.listdir(root))
        for _, d in olds[:-20]:
            shutil.rmtree(os.path.join(root, d), ignore_errors=True)
        log("%d frame records in %.1fs -> %s" % (len(rows), time.time() - t0, out))
        return out
    finally:
        fcntl.flock(lock, fcntl.LOCK_UN)
        lock.close()


if __name__ == "__main__":
    print(build(sys.argv[1] if len(sys.argv) > 1 else "dev"))
