#!/bin/bash
# run every registered quick check on /repo (or $VERIF_REPO) and print one line per check
cd "$(dirname "$0")/.."
for c in $(python3 -c "import json;print(' '.join(x['property_id'] for x in json.load(open('MANIFEST.json'))['checks']))") "$@"; do
  out=$(./check $c quick 2>&1); rc=$?
  echo "$c exit=$rc $(echo "$out" | grep -E '^\[C' | tail -1) $(echo "$out" | grep -c '^KNOWN-FINDING')kf"
  [ $rc -ne 0 ] && echo "$out" | grep -E "violation" | head -5
done
