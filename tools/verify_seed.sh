#!/bin/bash
# usage: verify_seed.sh <prop-id> <k> [seed-root]   -- independently confirms a seeded change in its scratch worktree:
#   suite passes WITH the patch, demo fails WITH, demo passes WITHOUT. Writes <seed-root>/<id>/<k>/verify.log and prints a verdict line.
id=$1; k=$2; root=${3:-/tmp/seed}
wt=/tmp/wt/$id; d=$root/$id/$k
export CARGO_NET_OFFLINE=true CARGO_TARGET_DIR=$wt/target
log=$d/verify.log; : > $log
cd $wt || exit 2
git checkout -q -- . && git clean -fdq -e target
demo_dst=rscel/tests/seed_demo.rs; pkg=rscel; mkdir -p rscel/tests
if grep -q "rscel_to_sql\|to_sql" $d/demo.rs; then demo_dst=extensions/to_sql/tests/seed_demo.rs; pkg=rscel-to-sql; mkdir -p extensions/to_sql/tests; fi
git apply $d/patch.diff >>$log 2>&1 || { echo "VERDICT $id/$k patch-does-not-apply"; exit 1; }
if [ -n "$SKIP_SUITE" ]; then suite=0; echo "suite skipped (verified in an earlier run)" >>$log; else cargo test --workspace --no-fail-fast --offline >>$log 2>&1; suite=$?; fi
passed=$(grep -E "^test result" $log | awk '{p+=$4; f+=$6} END {print p" passed "f" failed"}')
cp $d/demo.rs $demo_dst
cargo test -p $pkg --test seed_demo --offline >>$log 2>&1; with=$?
git checkout -q -- . ; mkdir -p $(dirname $demo_dst); cp $d/demo.rs $demo_dst
cargo test -p $pkg --test seed_demo --offline >>$log 2>&1; without=$?
git checkout -q -- . && git clean -fdq -e target
ok=no; [ $suite -eq 0 ] && [ $with -ne 0 ] && [ $without -eq 0 ] && ok=yes
echo "VERDICT $id/$k valid=$ok suite_exit=$suite ($passed) demo_with_exit=$with demo_without_exit=$without" | tee -a $log
