#!/usr/bin/env python3
"""Apply each seeded change to /repo's working tree, run the registered quick checks, record which fire, undo the change.
usage: tools/seedtest.py [seed-dir-name ...]   (default: all under seeded/)
Results: seeded/<name>/meta.json 'detected_by' and seeded/RESULTS.json"""
import json, os, subprocess, sys, re
VERIF = os.path.dirname(os.path.dirname(os.path.abspath(__file__)))
REPO = os.environ.get("SEED_REPO", "/repo")   # a scratch worktree for a parallel shard; the documented procedure applies to /repo itself
CHK_ENV = dict(os.environ, VERIF_REPO=REPO) if REPO != "/repo" else dict(os.environ)
man = json.load(open(os.path.join(VERIF, "MANIFEST.json")))
checks = [c["property_id"] for c in man["checks"]]
extra = [a[1:] for a in sys.argv[1:] if a.startswith("+")]
names = [a for a in sys.argv[1:] if not a.startswith("+")] or sorted(os.listdir(os.path.join(VERIF, "seeded")))
names = [n for n in names if os.path.isdir(os.path.join(VERIF, "seeded", n))]
res_path = os.environ.get("SEED_RESULTS") or os.path.join(VERIF, "seeded", "RESULTS.json")
results = json.load(open(res_path)) if os.path.exists(res_path) else {}
assert subprocess.run(["git", "-C", REPO, "status", "--porcelain"], capture_output=True, text=True).stdout.strip() == "", "/repo not clean"
for n in names:
    d = os.path.join(VERIF, "seeded", n)
    patch = os.path.join(d, "patch.diff")
    r = subprocess.run(["git", "-C", REPO, "apply", patch], capture_output=True, text=True)
    if r.returncode != 0:
        print(n, "PATCH DOES NOT APPLY", r.stderr[:300])
        results[n] = {"error": "patch does not apply"}
        continue
    fired = {}
    try:
        from concurrent.futures import ThreadPoolExecutor
        todo = checks + extra
        # the first check builds the MIR facts and the emission templates for this tree; the rest read the caches in parallel
        first = subprocess.run(["./check", "C02", "quick"], cwd=VERIF, env=CHK_ENV, capture_output=True, text=True)
        with ThreadPoolExecutor(max_workers=8) as ex:
            procs = list(ex.map(lambda c: (c, first if c == "C02" else subprocess.run(["./check", c, "quick"], cwd=VERIF, env=CHK_ENV, capture_output=True, text=True)), todo))
        for c, p in procs:
            viol = [l.strip() for l in p.stdout.splitlines() if l.strip().startswith("violation rule=")]
            if p.returncode == 1:
                fired[c] = viol
            elif p.returncode != 0:
                fired[c] = ["HARNESS exit %d: %s" % (p.returncode, (p.stderr or p.stdout)[-300:])]
    finally:
        subprocess.run(["git", "-C", REPO, "checkout", "--", "."], check=True)
        subprocess.run(["git", "-C", REPO, "clean", "-fdq", "-e", "target"], check=True)   # files a patch added
        subprocess.run(["git", "-C", REPO, "clean", "-fdq", "-e", "target"], check=True)
    meta = json.load(open(os.path.join(d, "meta.json")))
    meta["detected_by"] = {c: v for c, v in fired.items()}
    json.dump(meta, open(os.path.join(d, "meta.json"), "w"), indent=1)
    results[n] = {"property": meta["property"], "fired": sorted(fired), "own_property_fired": meta["property"] in fired}
    print(n, "->", {c: len(v) for c, v in fired.items()} or "MISSED", flush=True)
    json.dump(results, open(res_path, "w"), indent=1, sort_keys=True)
