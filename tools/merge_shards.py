#!/usr/bin/env python3
"""Merge the results of parallel seedtest shards (SEED_RESULTS files, and the meta.json files they updated in the snapshot directory) back into /verif/seeded.
usage: tools/merge_shards.py <snapshot-dir> <results.json> [...]"""
import json, os, sys
VERIF = os.path.dirname(os.path.dirname(os.path.abspath(__file__)))
snap = sys.argv[1]
res = {}
for f in sys.argv[2:]:
    res.update(json.load(open(f)))
for n, r in sorted(res.items()):
    src = os.path.join(snap, "seeded", n, "meta.json")
    dst = os.path.join(VERIF, "seeded", n, "meta.json")
    if "error" in r or not os.path.exists(src):
        print(n, r)
        continue
    m = json.load(open(dst))
    m["detected_by"] = json.load(open(src)).get("detected_by")
    json.dump(m, open(dst, "w"), indent=1)
json.dump(res, open(os.path.join(VERIF, "seeded", "RESULTS.json"), "w"), indent=1, sort_keys=True)
own = sum(1 for r in res.values() if r.get("own_property_fired"))
det = sum(1 for r in res.values() if r.get("fired"))
print("%d seeds: %d detected, %d by their own property, missed: %s" % (len(res), det, own, sorted(n for n, r in res.items() if not r.get("fired"))))
