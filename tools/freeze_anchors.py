#!/usr/bin/env python3
"""Freeze the function names the rules are written against: tables/anchors.json = {package: {pretty path: signature without the name}} for every
function of rscel and rscel-to-sql in /repo's current tree. When a later tree lacks one of these paths and has exactly one new function with the same
signature in the same module / impl, lib.Facts reads the new function under the frozen name (a rename is not a change of behaviour)."""
import json, os, sys
sys.path.insert(0, os.path.join(os.path.dirname(os.path.abspath(__file__)), "..", "rules"))
import lib
F = lib.get_facts()
out = {}
for name, d in F.crates.items():
    pkg = d.get("pkg") or name.split(".")[0]
    if pkg not in ("rscel", "rscel-to-sql"):
        continue
    out[pkg] = {b["path"]: {"sig": list(lib._fn_sig(b))} for b in d["bodies"] if b.get("kind") in ("fn", "assoc_fn") and "{closure" not in b["path"]}
    out[pkg]["#registries"] = {r["path"]: {row["name"]: row.get("target_path") for row in r["rows"]} for r in d.get("registries", [])}
json.dump(out, open(lib.ANCHORS, "w"), indent=0, sort_keys=True)
print({k: len(v) - 1 for k, v in out.items()})
