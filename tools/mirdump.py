#!/usr/bin/env python3
"""Debug aid: pretty-print MIR bodies from the facts cache.
usage: tools/mirdump.py <path-regex> [--calls] [--config nodefault]"""
import sys, os, re, json
sys.path.insert(0, os.path.join(os.path.dirname(os.path.abspath(__file__)), "..", "rules"))
import lib


def pl(p):
    s = "_%d" % p["l"]
    for e in p.get("p", []):
        if e == "deref":
            s = "(*%s)" % s
        elif isinstance(e, dict):
            if "f" in e:
                s += ".%d" % e["f"]
            elif "dc" in e:
                s = "(%s as %s)" % (s, e["dc"])
            elif "idx" in e:
                s += "[_%d]" % e["idx"]
            elif "cidx" in e:
                s += "[c%d%s]" % (e["cidx"], "e" if e.get("from_end") else "")
            else:
                s += str(e)
        else:
            s += "." + str(e)
    return s


def op(o):
    if "copy" in o:
        return pl(o["copy"])
    if "move" in o:
        return "move " + pl(o["move"])
    if "const" in o:
        c = o["const"]
        if "fn" in c:
            return "fn:" + c.get("res_path", c["fn_path"]) + ("<%s>" % ",".join(c.get("gargs", [])) if c.get("gargs") else "")
        if "int" in c:
            return "const %s:%s" % (c["int"], c["ty"])
        return "const " + c.get("repr", "?")[:80]
    return str(o)


def rv(r):
    k = r["k"]
    if k == "use":
        return op(r["op"])
    if k == "ref":
        return ("&mut " if r["mut"] else "&") + pl(r["place"])
    if k == "cast":
        return "%s as %s (%s)" % (op(r["op"]), r["to"], r["ck"])
    if k == "binop":
        return "%s(%s, %s)" % (r["op"], op(r["a"]), op(r["b"]))
    if k == "unop":
        return "%s(%s)" % (r["op"], op(r["a"]))
    if k == "discr":
        return "discriminant(%s)" % pl(r["place"])
    if k == "agg":
        a = r["ak"]
        if a == "adt":
            a = "%s::%s" % (r["adt"].split("::")[-1], r["variant"])
        elif a == "closure":
            a = "closure " + r["def"]
        return "%s{%s}" % (a, ", ".join(op(x) for x in r["ops"]))
    return json.dumps(r)[:120]


def dump(b, calls_only=False):
    print("=" * 100)
    print("fn %s   [%s:%d] kind=%s args=%d" % (b.path, b.file, b.line, b.kind, b.d["arg_count"]))
    names = {}
    for v in b.d["dbg"]:
        if "p" not in v["place"]:
            names[v["place"]["l"]] = v["name"]
    if not calls_only:
        for i, l in enumerate(b.d["locals"]):
            print("   let _%d: %s%s" % (i, l["ty"], ("  // " + names[i]) if i in names else ""))
    for i, blk in enumerate(b.blocks):
        if blk.get("cleanup"):
            continue
        t = blk["term"]
        if calls_only:
            if t and t["k"] == "call":
                print("  bb%d L%s: %s = %s(%s) -> bb%s" % (i, t.get("line"), pl(t["dest"]), op(t["func"]), ", ".join(op(a) for a in t["args"]), t["t"]))
            continue
        print("  bb%d:" % i)
        for s in blk["stmts"]:
            if s["k"] == "assign":
                print("      %s = %s" % (pl(s["place"]), rv(s["rv"])))
            else:
                print("      %s" % json.dumps(s)[:120])
        if t is None:
            continue
        k = t["k"]
        if k == "call":
            print("      %s = %s(%s) -> bb%s   L%s" % (pl(t["dest"]), op(t["func"]), ", ".join(op(a) for a in t["args"]), t["t"], t.get("line")))
        elif k == "switch":
            print("      switch %s [%s] otherwise bb%d" % (op(t["discr"]), ", ".join("%s->bb%d" % (c[0], c[1]) for c in t["cases"]), t["otherwise"]))
        elif k == "goto":
            print("      goto bb%d" % t["t"])
        elif k == "drop":
            print("      drop(%s) -> bb%d" % (pl(t["place"]), t["t"]))
        elif k == "assert":
            print("      assert(%s == %s, %s) -> bb%d" % (op(t["cond"]), t["expected"], t["msg"]["ak"], t["t"]))
        else:
            print("      " + k)


if __name__ == "__main__":
    args = [a for a in sys.argv[1:] if not a.startswith("--")]
    cfg = "default"
    if "--config" in sys.argv:
        cfg = sys.argv[sys.argv.index("--config") + 1]
        args = [a for a in args if a != cfg]
    F = lib.get_facts(cfg)
    for b in sorted(F.find(args[0]), key=lambda b: b.path):
        dump(b, "--calls" in sys.argv)
