#!/usr/bin/env python3
"""Single source of MANIFEST.json: edit CHECKS / NOT_APPLICABLE here, run `python3 tools/gen_manifest.py`.
A property is either in CHECKS (claimed, with the structural clauses the check decides) or in NOT_APPLICABLE (with the reason)."""
import json, os, sys

VERIF = os.path.dirname(os.path.dirname(os.path.abspath(__file__)))

CHECKS = {'C01': {'note': 'trusted: rustc MIR + trait resolution, PANIC_API/SAFE_API tables, the reviewed rows of tables/panic_sites.json; python/wasm FFI shims not '
                 'covered',
         'technique': 'MIR panic-edge census + call-graph SCC guard dominance',
         'text': 'Decides the structural necessary conditions of totality: every panic-capable construct (Assert terminator, panicking std/chrono call) in '
                 'rscel and rscel-to-sql is discharged by a class rule or a reviewed table row, every recursion cycle is cut by a dominating depth guard that '
                 'is not reset on the cycle, jump targets are bounds-checked. Exhaustive over the finite site set of the current tree; it does not execute '
                 'anything and does not decide loop termination or stack bytes.'},
 'C02': {'note': 'trusted: rustc MIR; symex summaries; two loop iterations represent each binary loop (the loop-carried node is an arbitrary node of the same level)',
         'technique': 'symbolic execution of the parse functions: level-chain, token and operator-triple tables + tree / code shape per iteration',
         'text': 'Decides the grammar the recursive-descent parser implements, read off the templates that symbolic execution of each parse function yields (all builder paths): which tighter level parses each operand '
                 'of each level (first and right operands; ?: condition and true branch at the || level, false branch at the expression level; bracketed operands at the expression level; prefix runs apply to a member), '
                 'which operator tokens each level consumes (disjoint classes in the order ?:, ||, &&, relations incl. in, + -, * / %, unary, postfix), that token, tree operator, opcode and folded function denote the same '
                 'operator, that each loop iteration builds Binary{lhs: previous, rhs: new} and previous ++ new ++ [op] (left grouping), that the VM applies binary opcodes to (left, right), and that every prefix '
                 'operator emits exactly one NOT / NEG. Invariance of evaluation under redundant parentheses / whitespace in general is not decided (tokenisation of whitespace is outside this check).'},
 'C03': {'note': 'trusted: rustc MIR at mir-opt-level 0, std checked_* contracts; default features',
         'technique': 'MIR assert/cast/callee rules over the operator impls',
         'text': 'Decides that no integer arm of + - * / % unary- can wrap or depend on the build profile (no Overflow assert, checked_* primitives, zero '
                 'tests dominate / and %), that widening is value preserving (try_from, exact casts only) and that folder and VM share the one impl. Numeric '
                 "results themselves are std's."},
 'C04': {'note': 'trusted: rustc MIR + resolved callees',
         'technique': 'MIR callee/cast rules over comparison functions',
         'text': 'Decides the wiring of the comparison layer: != is !(==), one ord behind < <= > >=, no value-changing cast in ord/eq/type_prop, sort/min/max '
                 'use that order with strict replacement. Does not decide transitivity on doubles or the constant sets inside lt/le/gt/ge.'},
 'C06': {'note': 'trusted: rustc MIR; symex summaries; std Vec / HashMap / str contracts; lists unrolled to three elements, maps to two entries',
         'technique': 'symbolic execution of the value layer into decision tables + template evaluation with extracted VM semantics',
         'text': 'Decides, from decision tables obtained by symbolic execution of CelValue::index / in_ / Add (every path with its branch conditions and result expression): a list element is returned only '
                 'under a bounds test of the very same index expression, with the sign rules of the statement (uint as is, int under i >= 0, size+i under size+i >= 0), without sign-changing casts, and every other '
                 'index shape is an error; m[k] gives the stored value or the absent-field error; `in` is list membership, map key presence and substring with the right operand as haystack, otherwise an error; + '
                 'appends right to left on strings, bytes and lists; size() is the length. List and map literals: the value the VM computes from the emitted layout and the folder term are both list_of / map_of of the '
                 'operands in source order, and map_of inserts in order with replacement (last entry wins in both evaluators); map field access wins over a method. Element values themselves are not decided.'},
 'C07': {'note': 'trusted: rustc MIR + resolved callees; Vec IntoIter yields front to back; user-bound macros outside the analysed program',
         'technique': 'MIR skeleton extraction (operand expression trees + dominance + edge reachability) over the macro loop functions',
         'text': 'Decides the loop STRUCTURE shared by all/exists/exists_one/filter/map/reduce, not their equality with the defining folds: documented arity constants; the loop-variable name is '
                 'read by eval_ident on an empty interpreter without resolving (an outer binding of the same name cannot capture it); per element bind_param on the private copy from setup_context, '
                 'then new_child(ctx, copies), then run_raw(documented body index, resolve) in that dominance order inside the loop; a failing body cannot reach the next element; all returns false on '
                 'the first falsy body, exists true on the first truthy one, exists_one false once the count exceeds 1 and count == 1 at the end, filter/map push only on the truthy edge, reduce threads '
                 'seed and step results through the first name; lists are visited by their forward iterator, maps by sorted keys. Equality with the folds over all lists is not decided.'},
 'C08': {'note': 'trusted: rustc MIR; frozen caller tables',
         'technique': 'MIR discriminant-switch extraction + who-may-construct rule',
         'text': 'Decides which failures count as absence: has/coalesce partition CelError into exactly {Binding, Attribute} vs propagate, only the frozen '
                 'sites can construct an absent-class error, both are run-time macros. Laziness of coalesce arguments is not decided.'},
 'C05': {'note': 'trusted: rustc MIR; symex summaries of Vec/iterator adapters; the abstract domain {truthy, falsy, failing} is exact for TEST/JMPCOND/NOT/OR/AND because they branch only on is_err / is_truthy / the Bool payload, which is itself checked; chains unrolled to three operands, match to two cases',
         'technique': 'symbolic execution of parser MIR into emission templates + abstract interpretation of the templates over {truthy, falsy, failing} with VM semantics extracted from MIR',
         'text': 'Decides laziness and failure absorption on the EMITTED CODE rather than on sampled runs: every template the parser can emit for || && ?: and match (all builder paths, extracted by '
                 'symbolic execution of the parse functions) is interpreted over the operand classes {truthy, falsy, failing} using the VM arm semantics (TEST, DUP, POP, NOT, JMPCOND, JMP, OR, AND) and the '
                 'absorption tables of or()/and()/not(), all of which are themselves extracted from MIR by symbolic execution and compared with the statement; for every class assignment the code must evaluate '
                 'exactly the permitted operands and yield the demanded class. Also: || and && are never folded through the strict or()/and(), the folded ternary selects by is_truthy and keeps a failed condition, '
                 'is_truthy has the documented per-variant table and the logical layer consults nothing else. Laziness observed through user call-counting functions is the same fact and is not run.'},
 'C09': {'note': 'trusted: rustc MIR; symex summaries; CelValue operations are the same resolved functions on both sides; loops unrolled to two / three elements',
         'technique': 'symbolic execution: folder term vs symbolic VM value of the emitted template, per operator; dominance / must-pass-through rules over MIR for the freeze guards (clock, embedded failure, run-dependence mark); reads_clock decision table on concrete programs',
         'text': 'Decides the points where folder and VM could disagree: for every operator template (relations incl. in, + - * / %, index, list and map literals) the term the compile-time evaluator computes on '
                 'constant operands is compared with the value obtained by interpreting the emitted code with the VM arm semantics (callee, operand order, entry order; both extracted from MIR by symbolic execution); a '
                 'node is constant only when all its operands are, otherwise every operand occurs exactly once in the code; call results are frozen only when reads_clock() is false and evaluation succeeded, reads_clock() '
                 'names every registry entry that can reach the system clock, and a frozen result cannot embed a failed element; compile-time macros are a sub-table of the run-time ones; prefix-operator lists are never '
                 'constants. The general substitution property over arbitrary programs is not decided.'},
 'C10': {'note': 'trusted: rustc MIR; symex summaries; inductive hypothesis: children satisfy their stack contract; loops unrolled to two / three elements and one outer iteration over an arbitrary node; hand-made CelByteCode is only bounds-checked',
         'technique': 'symbolic execution of the parse functions into emission templates + abstract stack/label interpretation against the VM effect table extracted by symbolic execution of the dispatch arms',
         'text': 'Decides well-formedness by induction over the grammar: every template of every parse function (all builder paths, incl. nested call / f-string blocks) is abstractly executed with the per-opcode stack '
                 'effects extracted from the VM itself: heights agree where paths meet, nothing pops an empty stack, the block ends with its contract height, every jump goes forward to a label placed exactly once inside '
                 'the block (hence in range and loop-free). The VM effect table equals the reviewed one and covers every ByteCode variant; resolver and VM use the same jump base and checked_jump_target returns exactly '
                 'the bounds-checked value; only resolve() builds raw relative jumps; the builder API the extraction summarises appends every element in order.'},
 'C11': {'note': "trusted: Rust's aliasing rules; user-bound functions outside the analysed program",
         'technique': 'effect / who-may-call rules + type-closure walk',
         'text': 'Decides: no static mut / thread-local, no interior mutability reachable from CelContext/BindContext/Program, clock read only by '
                 'now()/timestamp(), no hash-order iteration reaching a result, exec uses self immutably. Determinism across threads/histories is inferred '
                 'from the absence of shared mutable state, not exercised.'},
 'C12': {'note': 'trusted: rustc MIR + resolved callees, Rust drop semantics for the depth guard, HashMap::insert replaces; user-bound functions outside the analysed program',
         'technique': 'MIR CFG edge-cut reachability (look-up dominance order) + operand-origin rules',
         'text': 'Decides the resolution ORDER and the guard structure, which are facts about control flow: in InterpStack::pop each later look-up (variable, stored program, Binding error) '
                 'is unreachable once the miss edge of the earlier one is cut and unreachable from its hit edge; the same for function / macro / type constructor in call position, '
                 'function before macro in callable_by_name and field before method on maps; a referenced program runs on the same interpreter with resolve=true; bind_* / add_program '
                 'are one unconditional insert; run_raw takes one depth unit, compares it with a constant >= 16 before the dispatch loop and never moves the guard; child interpreters '
                 'inherit the count; JSON numbers are tried as i64, u64, f64. Values produced and JSON/direct equality are not decided.'},
 'C15': {'note': 'trusted: std / regex contracts of the named primitives; tables/builtin_rows.json reviewed by reading each wrapper; a wrapper re-implemented without its std primitive is reported as a changed row',
         'technique': 'MIR expression-tree extraction per overload vs reviewed primitive table + relational sibling comparison',
         'text': 'Decides the ways a thin wrapper can be wrong: DEFAULT_FUNCS binds exactly the documented names to the implementation of the same name; each string / regex / math overload '
                 'applies the reviewed std / regex primitive with the receiver and the arguments in the reviewed roles (expression trees over the parameters extracted from MIR); sibling functions '
                 '(X / XI, split / rsplit, trimStart/EndMatches, ceil / floor / round, log / lg, matchReplace / Once, min / max, toLower / toUpper, trim*) differ only in the one expected primitive and the '
                 'case-insensitive forms lower-case BOTH operands; the overload set per function is the documented one; partial integer primitives are the checked forms. The functional equations '
                 'themselves (what split, Regex or sqrt compute) are the libraries\' contracts and are not decided.'},
 'C13': {'note': 'trusted: std parse / from_str_radix / char::from_u32',
         'technique': 'MIR cast/callee rules over the literal path',
         'text': 'Decides only: the parser does not narrow integer literals with a wrapping cast (known finding), numbers are converted by std parsers, code '
                 'points validated by char::from_u32, string/bytes scanners share the hex helper. The escape tables and digit classes are NOT decided.'},
 'C14': {'note': 'trusted: Rust `as` float->int semantics; std parse',
         'technique': 'MIR cast rule over conversion overloads',
         'text': 'Decides that no overload of the type constructors converts with a wrapping integer cast, that construct_type reaches each constructor module '
                 "and that text is parsed by std's parser of the target type. Round-trip equalities and f-string lowering are not decided."},
 'C16': {'note': 'trusted: chrono accessor contracts',
         'technique': 'sibling cross-check + frozen callee rows',
         'text': 'Decides: UTC and zoned overloads of every calendar accessor agree on the chrono accessor and adjustment (one known finding), each accessor '
                 'uses the chrono accessor with the documented base, time + / - use checked chrono operations, zone names are parsed. Calendar laws and '
                 'uomConvert are not decided.'},
 'C17': {'note': 'trusted: rustc MIR; symex summaries (HashSet / ProgramDetails operations are executed symbolically); induction hypothesis: each sub-parse reports the identifiers of its own sub-tree',
         'technique': 'symbolic execution of the parser MIR with symbolic ProgramDetails: per-path details completeness',
         'text': 'Decides the data-flow obligation behind the reported parameter list by induction over the grammar: on every builder path of every parse function (templates from symbolic execution, all paths incl. '
                 'folded operands, untaken ?: branches, call argument blocks, macro bodies, f-string segments, match scrutinees / patterns / arms) the returned node reports the parameter set of every sub-program parsed on '
                 'that path; an identifier primary registers its own token text and nothing else registers names; the details travel unchanged into the Program; filter_from_bindings keeps a name iff it is not bound as '
                 'variable, function or macro. The evaluation-relevance criterion is a consequence of the superset property and is not separately decided.'},
 'C18': {'note': 'trusted: rustc MIR; symex summaries; match-pattern spans are exempt, as in the property',
         'technique': 'symbolic execution: span-composition and look-ahead typestate over parser paths; symbolic scanner state transitions',
         'text': 'Decides the disciplines behind exact spans: surrounding() is (min of starts, max of ends) under the derived lexicographic (line, column) order; on every builder path of every parse function the '
                 'node span is composed from sub-tree spans and tokens the function itself consumed and includes the first and the last thing consumed, never an unconsumed look-ahead token; a tokenizer.location() that '
                 'flows into a span is read while no look-ahead token is buffered; StringScanner::next moves (line, column) only with a returned character (+1 column, or +1 line and column 0) and not at end of input; '
                 'a token span is (position before its first character, position after its last). Exactness on every layout and re-compiling the spanned text are not decided.'},
 'C19': {'note': 'trusted: serde_derive variant numbering; serde_json float codec',
         'technique': 'ADT/attribute rules over the serde closure',
         'text': 'Decides positional safety of every enum reachable from Program (no serialized variant after a skipped one), codec symmetry, float payload '
                 'representability in JSON (one known finding), matching codec pairs in the python/wasm entry points. Behavioural equality of round-tripped '
                 'programs is not decided.'},
 'C20': {'note': 'trusted: PostgreSQL quote doubling; rustc MIR',
         'technique': 'must-call + sibling-count rules over resolved MIR callees',
         'text': "Decides: string literals pass through an escape before being quoted, both call-argument arms undo the parser's reverse storage, no "
                 'undischarged panic edge in the translator, every grammar node has an IntoSqlBuilder impl. SQL re-parse equivalence is not decided.'}}

# ---- later extensions of the rule sets (kept as an overlay so that the history of each text stays readable)
UPDATES = {
 'C01': {'technique': 'MIR panic-edge census + call-graph SCC guard dominance + depth-counter inheritance dataflow; thorough: stack budget from the compiler-emitted frame sizes (.stack_sizes) over the guarded cycles',
         'text': 'Decides the structural necessary conditions of totality: every panic-capable construct (Assert terminator, panicking std/chrono call) in rscel and rscel-to-sql is discharged by a class rule or a '
                 'reviewed table row; every recursion cycle is structural over an owned value (possibly through pass-through helpers) or cut by a dominating depth guard that is not reset on the cycle; a parser created '
                 'while parsing (format-string segments) inherits the nesting counter before it is used; jump targets are bounds-checked. Thorough tier: for every guarded recursion, depth limit x heaviest call chain '
                 'between two guard passes (frame sizes read from the object code the compiler emits with -Z emit-stack-sizes, dev and optimised profile; nothing is run) + a helper allowance fits the 2 MiB stack of a '
                 'spawned thread - the dev profile of the parser does not (known finding). Exhaustive over the finite site set of the current tree; loop termination is not decided.'},
 'C03': {'technique': 'MIR assert/cast/callee rules over the operator impls + symbolic execution of neg, type_prop and + - * / % into decision tables',
         'text': 'Decides that no integer arm of + - * / % unary- can wrap or depend on the build profile (no Overflow assert, checked_* primitives, zero tests dominate / and %), and - from decision tables obtained by '
                 'symbolic execution - the whole case analysis of the arithmetic layer: type_prop widens every numeric pair by the fixed rules (int/uint through i64::try_from with the pair left mixed when the uint has no '
                 'int value, bool as 0/1 of the other type, anything with double through `as f64`, every other pair unchanged and in order); each binary operator sends int and uint pairs through the checked primitive on '
                 '(left, right) with None -> error, double pairs through the IEEE operation on (left, right), tests the RIGHT operand of / and % against zero first, lets a failed left operand win, concatenates left then '
                 'right, and answers every other pair with an error; unary minus is checked_neg on int, the IEEE sign flip on double, an error otherwise; folder and VM share the one impl. Numeric results themselves are std\'s.'},
 'C04': {'technique': 'MIR callee/cast rules + symbolic execution of ord / eq / lt / le / gt / ge into decision tables',
         'text': 'Decides the wiring and the case analysis of the comparison layer: != is !(==); one ord behind < <= > >=, whose table (by symbolic execution) compares the payloads of the eight comparable types with '
                 'partial_cmp in operand order, orders a mixed int/uint pair by magnitude and is an error for every other pair; lt / le / gt / ge are true for exactly {Less}, {Less, Equal}, {Greater}, {Greater, Equal}; '
                 '== compares payloads on the diagonal, is false across types after widening, and handles every pair of operand classes the same way in both orders (symmetry of the table); sort/min/max use that order with '
                 'strict replacement. Does not decide transitivity on doubles (std partial_cmp).'},
 'C07': {'technique': 'symbolic execution of every macro implementation into exhaustive decision behaviours on lists of 0..3 elements, compared with the defining folds; MIR skeleton extraction (operand expression trees + dominance + edge reachability)',
         'text': None},
 'C11': {'technique': 'effect / who-may-call rules + type-closure walk + must-update dataflow over the mutators of the stored state',
         'text': None},
 'C12': {'technique': None, 'text': None},
 'C13': {'technique': 'symbolic execution of the literal scanners into escape / digit tables + MIR expression trees of token payloads + checked-narrowing rules',
         'text': None},
 'C16': {'technique': 'sibling cross-check + frozen callee rows over resolved MIR callees + symbolic-execution rows of time arithmetic',
         'text': None},
 'C19': {'technique': 'ADT/attribute rules over the serde closure + JSON nesting budget computed from the serde type graph, the emission templates and the parser limit',
         'text': None},
 'C20': {'technique': 'symbolic execution of every IntoSqlBuilder impl and every SqlBuilder::to_sql into translation tables (node -> builder -> text) + must-call / sibling rules',
         'text': 'Decides the translation itself, read off tables that symbolic execution of the translator yields: every binary node becomes (lhs, SQL token of the same operator, rhs) with the frozen token table '
                 '(|| OR, && AND, == =, != <>, < <= > >= in, + - * / %), the ternary (condition, true, false), unary operators (operator run, operand), parentheses are kept, list elements stay in source order, member '
                 'chains wrap the builder made so far, call arguments are reversed back to source order in both call arms, type constructors become casts of their single argument to the frozen SQL types; every builder '
                 'prints its operands in field order; an operand followed by a tighter-binding postfix (::type, [index], (args)) passes through the guard that parenthesises compound text and the builders that print '
                 '`operand operator operand` declare themselves compound; string literals pass through the quote-doubling escape; match and other untranslatable constructs are reported as unsupported; no panic edge in '
                 'the translator. The SQL text is not re-parsed.'},
}
EXTRA_TEXT = {
 'C07': ' Also (R07.5): for lists of 0..3 elements (0..4 in the thorough tier) and every assignment of outcomes - truthy / falsy / failing / value - to the body evaluations, the behaviour of each macro implementation (all, exists, exists_one, filter, map with 2 and 3 arguments, reduce), obtained by symbolic execution, equals the behaviour of its defining fold with early exit generated from the property: visited elements, evaluated bodies, bindings, stopping point and result.',
 'C01': ' Also: index panics with a constant index are discharged by a slice-length dataflow over the function and, for private functions, all its call sites (D-length); reduce bounds the nesting of its accumulator in every iteration (R01.8: values built by the evaluator have bounded depth, which is what bounds the structural recursions clone / == / drop); comparator-based std sorts are reached only under the total-order guard (R01.9).',
 'C04': ' Also: sort reaches sort_by only for an empty list or when every element is comparable with the first element and with itself (Ok(Some) both: a total order, no NaN) - also when the guard is written as iter().all(closure) (R04.8); min / max over three arguments equal the fold with strict replacement for all four outcomes of the two comparisons (R04.9).',
 'C06': ' List membership is decided as the table on a concrete two-element list (first hit answers true, no hit false; identical for the loop and the iter().any() form).',
 'C08': ' Also (R08.5): where absence comes from - in the Access arm a missing field is an Attribute error on a map without the key and on a value that has no fields; the value or failure of a referenced stored program is passed on unchanged (or refused by the cycle guard before evaluation).',
 'C09': ' Also: the guard that keeps failures out of frozen call results looks at every depth (decision table: Err -> true, list / map -> any element recursively); R09.7: every call argument block is evaluated by run_raw on the calling interpreter and a failing argument fails the call, whatever the block looks like. R09.8: a call is frozen only if its compile-time evaluation read nothing a later execution may see differently - check_for_const tests the run-dependence mark of the interpreter after the run; the mark is set wherever an unbound name becomes a value and wherever a timestamp is constructed from no arguments (however the type was reached), and child interpreters share it. R09.9: reads_clock(), executed symbolically on 21 concrete programs (now as function, method `x.now()`, value; timestamp(); each nested one and two argument blocks deep), answers true.',
 'C10': ' Also (R10.6): resolve() appends exactly one instruction per Bytecode / Jmp / JmpCond code point on every path, none for a Label, and touches its output in no other way - so label positions equal instruction positions.',
 'C18': ' Also (R18.6): every node created inside a parse function besides its result (member steps, argument lists, entries, cases) spans from no later than its first to no earlier than its last sub-tree, and an explicit (start, end) pair is in source order.',
 'C11': ' Also: in every mutator of CelContext / BindContext a field that is updated at all is updated on every path on which another field is updated (no derived table can keep a stale entry after a name is replaced).',
 'C12': ' Also: a program found under an identifier is ALWAYS evaluated by run_raw on the same interpreter and its value or failure is passed on unchanged; R12.6: a stored program is never entered while it is already being evaluated (guard asked with the name before run_raw in identifier resolution and run_program, fails when listed, lists otherwise, unlisted by Drop, inherited by child interpreters) - a cyclic reference is an error at once.',
 'C13': ' Also: every Int / UInt / Float token the number scanner builds carries exactly the result of the std parser for the scanned text on every path; the one accepting range test of the escape tables is the octal first digit 0..3. R13.8: in the bytes-literal scanner the only `char as u8` narrowings are of a two-digit hex escape or under an ASCII test; unescaped characters are appended as UTF-8.',
 'C16': ' Also: decision rows of timestamp / duration + and - (t + d, d + t, t - d through the checked signed operations in operand order, t1 - t2 = signed_duration_since(t1, t2), d1 +/- d2 checked, None -> error). R16.8: dataflow of the zoned overloads - the accessor chain of the UTC overload is applied to the value returned by get_adjusted_datetime(this, zone), and no calendar field is read from the raw instant.',
 'C19': ' Also: every enum of the closure keeps the externally tagged representation; only the reviewed run-time-only CelValue variants (Message, Enum, Dyn) are left out; envelope + (parser nesting limit - 1) x JSON levels per nested code block + deepest constant <= 127, the deepest document serde_json reads back.',
}
for _k, _u in UPDATES.items():
    for _f, _v in _u.items():
        if _v is not None:
            CHECKS[_k][_f] = _v
for _k, _t in EXTRA_TEXT.items():
    if not CHECKS[_k]['text'].endswith(_t):
        CHECKS[_k]['text'] = CHECKS[_k]['text'] + _t


NOT_APPLICABLE = {}


def main():
    ids = ["C%02d" % i for i in range(1, 21)]
    for i in ids:
        assert (i in CHECKS) != (i in NOT_APPLICABLE), "property %s must be claimed xor not applicable" % i
    claimed = sorted(CHECKS)
    man = {
        "version": 1,
        "setup_cmd": "python3 tools/build_facts.py default >/dev/null",
        "hooks": {
            "guard": "rscel_verif",
            "enable": "none needed: the analysis reads /repo's source through the compiler (RUSTC_WORKSPACE_WRAPPER driver under cargo check); no instrumentation was added to /repo",
            "baseline_off_cmd": "cd /repo && cargo test --workspace --no-fail-fast --offline",
            "source_commits": [],
            "add_only": True,
        },
        "engines": [
            {"name": "mirfacts", "path": "mirfacts/", "serves_properties": claimed,
             "kind_free_text": "rustc_private driver on the repository's pinned nightly: dumps MIR (statements, terminators, resolved callees, asserts, casts, switches), ADTs with attributes, const registries of every workspace crate to JSON; rebuilt whenever /repo's tree hash changes"},
            {"name": "rules", "path": "rules/", "serves_properties": claimed,
             "kind_free_text": "python rule evaluators over the facts: call graph + SCCs, dominators, edge-cut reachability, expression-tree extraction, panic-edge census, cast / callee / discriminant-switch rules, frozen tables with floors, known-findings suppression by exact key"},
        ],
        "checks": [],
        "not_applicable": [{"property_id": i, "reason": NOT_APPLICABLE[i]} for i in ids if i in NOT_APPLICABLE],
        "notes": "static analysis family; see DESIGN.md section 0 for what is implemented and what each check decides",
    }
    for i in claimed:
        c = CHECKS[i]
        man["checks"].append({
            "property_id": i,
            "quick_cmd": "./check %s quick" % i,
            "thorough_cmd": "./check %s thorough" % i,
            "evidence_file": "evidence/%s.json" % i,
            "replay_cmd_template": "./check %s quick  # static: re-analyses /repo; {path} names rule, instance and construct" % i,
            "engine": "mirfacts+rules",
            "level_claimed": {"category": "other", "text": c["text"], "design_ref": "DESIGN.md section 0 and section 3 (%s)" % i},
            "level_note": c["note"],
            "technique": c["technique"],
        })
    json.dump(man, open(os.path.join(VERIF, "MANIFEST.json"), "w"), indent=1)
    print("MANIFEST.json: %d checks, %d not applicable" % (len(man["checks"]), len(man["not_applicable"])))


if __name__ == "__main__":
    main()
