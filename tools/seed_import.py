#!/usr/bin/env python3
"""Import a confirmed seeded change from the scratch area into /verif/seeded/<id>-<k>/ (patch.diff, demo.rs, README.md, meta.json)."""
import json, os, re, shutil, sys
VERIF = os.path.dirname(os.path.dirname(os.path.abspath(__file__)))
pid, k = sys.argv[1], sys.argv[2]
src = "/tmp/seed/%s/%s" % (pid, k)
dst = os.path.join(VERIF, "seeded", "%s-%s" % (pid, k))
os.makedirs(dst, exist_ok=True)
for f in ("patch.diff", "demo.rs", "README.md"):
    shutil.copy(os.path.join(src, f), os.path.join(dst, f))
ver = open(os.path.join(src, "verify.log")).read().strip().splitlines()[-1]
assert "valid=yes" in ver, ver
readme = open(os.path.join(src, "README.md")).read()
meta = {
    "property": pid, "seed": "%s-%s" % (pid, k),
    "origin": "independent sub-agent given only the property text and a scratch worktree of /repo (HEAD %s)" % os.environ.get("SEED_HEAD", "571fdf7") + "",
    "needs_to_manifest": sys.argv[3] if len(sys.argv) > 3 else "see README.md",
    "files_touched": sorted(set(re.findall(r"^\+\+\+ b/(.*)$", open(os.path.join(src, "patch.diff")).read(), re.M))),
    "confirmed_by": "tools/verify_seed.sh in the scratch worktree: full suite passes with the patch, demo fails with it and passes without",
    "verify_verdict": ver,
    "detected_by": None,
}
mp = os.path.join(dst, "meta.json")
if os.path.exists(mp):
    old = json.load(open(mp))
    meta["detected_by"] = old.get("detected_by")
json.dump(meta, open(mp, "w"), indent=1)
print("imported", dst)
