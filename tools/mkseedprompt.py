#!/usr/bin/env python3
"""Write the prompt for an independent seeding sub-agent: only the property text and
a scratch worktree path - nothing from /verif's machinery."""
import json, sys, os
pid = sys.argv[1]
wt = sys.argv[2]
out = sys.argv[3]
extra = sys.argv[4] if len(sys.argv) > 4 else ""
ks = os.environ.get("SEED_KS", "1,2")
p = [json.loads(l) for l in open(os.path.join(os.path.dirname(__file__), "..", "properties.jsonl")) if json.loads(l)["id"] == pid][0]
txt = f"""# Task: seed two subtle defects that break one property of rscel

You work ONLY inside the scratch git worktree `{wt}` (a checkout of the Rust
project 1BADragon/rscel: a Common Expression Language evaluator - tokenizer,
recursive-descent parser, constant-folding bytecode compiler, stack VM, plus
python/wasm bindings and a CEL->SQL extension). Never read or write anything under
/repo or /verif. Write your results only under `{out}`.

## The property ({pid}: {p['title']})

{p['statement']}

Quantified over: {p['quantifier']['text']}

## What to produce

TWO independent code changes to rscel (different code sites / different mechanisms),
each of which

1. still compiles (whole workspace),
2. still passes the ENTIRE existing test suite unchanged
   (`cd {wt} && CARGO_NET_OFFLINE=true cargo test --workspace --no-fail-fast --offline`;
   the machine has no network; do not edit or delete existing tests),
3. breaks the property above for at least one concrete input / sequence, and
4. is subtle: it must need something specific to manifest - an unusual input or
   boundary value, a multi-step sequence of operations, a particular nesting or
   position, a non-default path (e.g. the run-time path where the tests only take
   the constant-folded path, or vice versa), or two cooperating sites that each look
   fine alone - NOT something ordinary use would expose at once. Think of a change a
   plausible refactor, optimisation or "simplification" could introduce: small
   (typically 1-15 changed lines), natural-looking code, no comments announcing the
   bug, no special-casing of magic values.{extra}

For each change k in {{{ks}}} write into `{out}/k/`:

* `patch.diff` - `git diff` of the change against the worktree's HEAD (must apply with
  `git apply` to a clean checkout);
* `demo.rs` - a self-contained Rust integration test (to be dropped into
  `rscel/tests/` or, for the SQL extension, `extensions/to_sql/tests/`) using only the
  public API, that FAILS with the change and PASSES without it. Say in the README
  where it goes and how to run it;
* `README.md` - which clause of the property it breaks, what exactly is needed for it
  to manifest, why the existing tests do not notice, and the commands you ran with
  their results (test-suite totals WITH the change; demo failing WITH and passing
  WITHOUT the change).

You must actually run these commands and confirm the results; do not guess. Build
output may go to `{wt}/target`. When finished, restore the worktree to a clean
state (`git -C {wt} checkout -- . && git -C {wt} clean -fdq -e target`) - results live
only in `{out}`. If after honest effort you can only produce one valid change, deliver
one and say so. Finish with a 5-line summary of the two changes.
"""
os.makedirs(out, exist_ok=True)
open(os.path.join(out, "PROMPT.md"), "w").write(txt)
print(os.path.join(out, "PROMPT.md"))
