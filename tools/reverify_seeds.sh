#!/bin/bash
# re-confirm every seeded change against /repo's CURRENT HEAD in a scratch worktree: demo passes without the patch, fails with it.
# usage: tools/reverify_seeds.sh [name ...]   -> seeded/REVERIFY.txt
VERIF=$(cd "$(dirname "$0")/.." && pwd)
wt=/tmp/wt/rv
git -C /repo worktree remove --force $wt 2>/dev/null; git -C /repo worktree add --detach $wt HEAD >/dev/null 2>&1 || exit 2
export CARGO_NET_OFFLINE=true CARGO_TARGET_DIR=$wt/target
cd $wt
names="$@"; [ -z "$names" ] && names=$(ls $VERIF/seeded | grep '^C')
out=$VERIF/seeded/REVERIFY.txt; head=$(git rev-parse --short HEAD)
for n in $names; do
  d=$VERIF/seeded/$n
  git checkout -q -- . ; git clean -fdq -e target
  demo_dst=rscel/tests/seed_demo.rs; pkg=rscel
  if grep -q "rscel_to_sql\|to_sql" $d/demo.rs; then demo_dst=extensions/to_sql/tests/seed_demo.rs; pkg=rscel-to-sql; fi
  mkdir -p $(dirname $demo_dst); cp $d/demo.rs $demo_dst
  cargo test -p $pkg --test seed_demo --offline >/dev/null 2>&1; without=$?
  if git apply $d/patch.diff 2>/dev/null; then
    cargo test -p $pkg --test seed_demo --offline >/dev/null 2>&1; with=$?
  else with=applyfail; fi
  ok=no; [ "$without" = 0 ] && [ "$with" != 0 ] && [ "$with" != applyfail ] && ok=yes
  echo "$n head=$head valid=$ok demo_without=$without demo_with=$with"
done | tee $out
git -C /repo worktree remove --force $wt
