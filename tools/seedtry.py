#!/usr/bin/env python3
"""Dev helper: apply a patch to a scratch worktree (not /repo), run every registered quick check against it through VERIF_REPO, revert.
usage: tools/seedtry.py <worktree> <patch.diff> [<patch.diff> ...]"""
import json, os, subprocess, sys
from concurrent.futures import ThreadPoolExecutor
VERIF = os.path.dirname(os.path.dirname(os.path.abspath(__file__)))
wt = sys.argv[1]
checks = [c["property_id"] for c in json.load(open(os.path.join(VERIF, "MANIFEST.json")))["checks"]]
env = dict(os.environ, VERIF_REPO=wt)
for patch in [os.path.abspath(x) for x in sys.argv[2:]]:
    subprocess.run(["git", "-C", wt, "checkout", "-q", "--", "."], check=True)
    subprocess.run(["git", "-C", wt, "clean", "-fdq", "-e", "target"], check=True)   # files a patch added
    r = subprocess.run(["git", "-C", wt, "apply", patch], capture_output=True, text=True)
    if r.returncode:
        print(patch, "DOES NOT APPLY", r.stderr[:200]); continue
    def run(c):
        return c, subprocess.run(["./check", c, "quick"], cwd=VERIF, env=env, capture_output=True, text=True)
    first = run("C02")
    with ThreadPoolExecutor(max_workers=8) as ex:
        res = [first] + list(ex.map(run, [c for c in checks if c != "C02"]))
    fired = {}
    for c, p in res:
        if p.returncode:
            fired[c] = [l.strip()[:160] for l in p.stdout.splitlines() if l.strip().startswith("violation rule=")][:3] or ["exit %d %s" % (p.returncode, p.stderr[-200:])]
    print(patch, "->", json.dumps(fired, indent=0)[:900] if fired else "MISSED", flush=True)
    subprocess.run(["git", "-C", wt, "checkout", "-q", "--", "."], check=True)
    subprocess.run(["git", "-C", wt, "clean", "-fdq", "-e", "target"], check=True)   # files a patch added
