#!/usr/bin/env python3
"""Build (or reuse) the MIR/HIR fact files for /repo's *current working tree*.

Facts are cached under /verif/.cache/facts/<tree-hash>/<config>/ ; a changed
tree always rebuilds.  Exit status: 0 ok, 2 = could not build (a broken build
is not a verdict).  Prints the facts directory on stdout (last line).
"""
import fcntl, hashlib, json, os, shutil, subprocess, sys, time, glob

VERIF = os.path.dirname(os.path.dirname(os.path.abspath(__file__)))
REPO = os.environ.get("VERIF_REPO", "/repo")
CACHE = os.environ.get("VERIF_CACHE") or os.path.join(VERIF, ".cache")   # VERIF_CACHE: a private cache for a parallel shard of the regression batteries
DRIVER_DIR = os.path.join(VERIF, "mirfacts")
DRIVER = os.path.join(DRIVER_DIR, "target", "release", "mirfacts")
SYN_DIR = os.path.join(VERIF, "synfacts")
SYN = os.path.join(SYN_DIR, "target", "release", "synfacts")

CONFIGS = {
    # what the baseline suite builds
    "default": ["check", "--offline", "--workspace"],
    # the other cfg!() arms of or/and/Not/ternary fold/neg index
    "nodefault": ["check", "--offline", "-p", "rscel", "--no-default-features"],
}


def log(*a):
    print("[facts]", *a, file=sys.stderr, flush=True)


def tree_hash(repo=REPO):
    out = subprocess.run(
        ["git", "-C", repo, "ls-files", "-co", "--exclude-standard", "-z"],
        check=True, capture_output=True).stdout
    h = hashlib.sha256()
    names = sorted(n for n in out.split(b"\0") if n)
    for n in names:
        p = os.path.join(repo.encode(), n)
        if n.startswith(b"target/") or not os.path.isfile(p):
            continue
        if not (n.endswith((b".rs", b".toml", b".lock", b".proto")) or n.endswith(b"build.rs")):
            continue
        h.update(n + b"\0")
        with open(p, "rb") as f:
            h.update(hashlib.sha256(f.read()).digest())
    # the extractors are part of the key
    for extra in (os.path.join(DRIVER_DIR, "src", "main.rs"), os.path.join(SYN_DIR, "src", "main.rs")):
        if os.path.exists(extra):
            with open(extra, "rb") as f:
                h.update(hashlib.sha256(f.read()).digest())
    return h.hexdigest()[:20]


def sysroot():
    return subprocess.run(["rustc", "--print", "sysroot"], cwd=DRIVER_DIR, check=True,
                          capture_output=True, text=True).stdout.strip()


def ensure_tools():
    env = dict(os.environ, CARGO_NET_OFFLINE="true")
    if not os.path.exists(DRIVER) or os.path.getmtime(DRIVER) < os.path.getmtime(os.path.join(DRIVER_DIR, "src", "main.rs")):
        log("building mirfacts driver")
        r = subprocess.run(["cargo", "build", "--release", "--offline"], cwd=DRIVER_DIR, env=env,
                           capture_output=True, text=True)
        if r.returncode != 0:
            log(r.stderr[-4000:])
            sys.exit(2)
    if os.path.isdir(SYN_DIR):
        src = os.path.join(SYN_DIR, "src", "main.rs")
        if not os.path.exists(SYN) or os.path.getmtime(SYN) < os.path.getmtime(src):
            log("building synfacts")
            r = subprocess.run(["cargo", "build", "--release", "--offline"], cwd=SYN_DIR, env=env,
                               capture_output=True, text=True)
            if r.returncode != 0:
                log(r.stderr[-4000:])
                sys.exit(2)


def build(config, repo=REPO):
    os.makedirs(CACHE, exist_ok=True)
    lock = open(os.path.join(CACHE, "lock"), "w")
    fcntl.flock(lock, fcntl.LOCK_EX)
    try:
        ensure_tools()
        th = tree_hash(repo)
        out = os.path.join(CACHE, "facts", th, config)
        meta = os.path.join(out, "meta.json")
        if os.path.exists(meta):
            return out
        t0 = time.time()
        tmp = out + ".tmp"
        shutil.rmtree(tmp, ignore_errors=True)
        os.makedirs(tmp)
        target = os.path.join(CACHE, "target-" + config)
        # cargo's freshness cache would skip the wrapper: drop the members' fingerprints
        for fp in glob.glob(os.path.join(target, "debug", ".fingerprint", "*")):
            b = os.path.basename(fp)
            if b.startswith(("rscel", "rscel_", "rscel-")):
                shutil.rmtree(fp, ignore_errors=True)
        sr = sysroot()
        env = dict(os.environ)
        env.update({
            "MIRFACTS_OUT": tmp,
            "LD_LIBRARY_PATH": sr + "/lib:" + env.get("LD_LIBRARY_PATH", ""),
            "RUSTFLAGS": "-Zmir-opt-level=0 -Awarnings",
            "RUSTC_WORKSPACE_WRAPPER": DRIVER,
            "CARGO_TARGET_DIR": target,
            "CARGO_NET_OFFLINE": "true",
        })
        env.pop("RUSTC_WRAPPER", None)
        log("cargo", " ".join(CONFIGS[config]), "(tree", th + ")")
        r = subprocess.run(["cargo"] + CONFIGS[config], cwd=repo, env=env, capture_output=True, text=True)
        if r.returncode != 0:
            log("BUILD FAILED - /repo does not compile in config", config)
            log(r.stderr[-6000:])
            shutil.rmtree(tmp, ignore_errors=True)
            sys.exit(2)
        files = sorted(glob.glob(os.path.join(tmp, "*.json")))
        crates = {}
        for f in files:
            base = os.path.basename(f)
            pkg, krate, _pid, _ = base.rsplit(".", 3)
            if krate == "build_script_build":
                os.remove(f)
                continue
            dst = os.path.join(tmp, "%s.%s.json" % (pkg, krate))
            os.replace(f, dst)
            crates["%s.%s" % (pkg, krate)] = os.path.basename(dst)
        need = ["rscel.rscel"] if config == "nodefault" else ["rscel.rscel", "rscel-to-sql.rscel_to_sql", "rscel_wasm.rscel_wasm", "rscel_python.rscel"]
        missing = [n for n in need if n not in crates]
        if missing:
            log("fact files missing for", missing, "- driver was not run (stale cargo cache?)")
            shutil.rmtree(tmp, ignore_errors=True)
            sys.exit(2)
        # syn-level facts (source shape: builder templates, literal tables)
        if os.path.exists(SYN):
            r = subprocess.run([SYN, repo, os.path.join(tmp, "syn.json")], capture_output=True, text=True)
            if r.returncode != 0:
                log("synfacts failed:", r.stderr[-4000:])
                shutil.rmtree(tmp, ignore_errors=True)
                sys.exit(2)
        with open(os.path.join(tmp, "meta.json"), "w") as f:
            json.dump({"tree": th, "config": config, "crates": crates, "built_s": round(time.time() - t0, 1),
                       "repo": repo}, f)
        shutil.rmtree(out, ignore_errors=True)
        os.makedirs(os.path.dirname(out), exist_ok=True)
        os.replace(tmp, out)
        # keep the cache small: drop fact sets of other trees (keep 40 newest)
        root = os.path.join(CACHE, "facts")
        olds = sorted((os.path.getmtime(os.path.join(root, d)), d) for d in os.listdir(root))
        for _, d in olds[:-40]:
            shutil.rmtree(os.path.join(root, d), ignore_errors=True)
        log("facts built in %.1fs -> %s" % (time.time() - t0, out))
        return out
    finally:
        fcntl.flock(lock, fcntl.LOCK_UN)
        lock.close()


if __name__ == "__main__":
    cfg = sys.argv[1] if len(sys.argv) > 1 else "default"
    print(build(cfg))
