#!/usr/bin/env python3
"""False-alarm battery: behaviour-preserving refactorings of /repo (written by independent sub-agents that knew nothing of /verif; each passes the whole suite).
Every registered quick check must stay silent on each of them. Applies each patch to a scratch worktree of /repo (never to /repo itself) and runs the checks
with VERIF_REPO pointing at it.   usage: tools/refactest.py [name ...]"""
import json, os, subprocess, sys, tempfile
from concurrent.futures import ThreadPoolExecutor
VERIF = os.path.dirname(os.path.dirname(os.path.abspath(__file__)))
EXPECTED = {}
names = sys.argv[1:] or sorted(os.listdir(os.path.join(VERIF, "refactorings")))
checks = [c["property_id"] for c in json.load(open(os.path.join(VERIF, "MANIFEST.json")))["checks"]]
wt = tempfile.mkdtemp(prefix="refac-wt-")
subprocess.run(["git", "-C", "/repo", "worktree", "add", "-q", "--detach", wt, "HEAD"], check=True)
env = dict(os.environ, VERIF_REPO=wt)
bad = 0
try:
    for n in names:
        patch = os.path.join(VERIF, "refactorings", n, "patch.diff")
        subprocess.run(["git", "-C", wt, "checkout", "-q", "--", "."], check=True)
        subprocess.run(["git", "-C", wt, "clean", "-fdq", "-e", "target"], check=True)   # files a patch added
        r = subprocess.run(["git", "-C", wt, "apply", patch], capture_output=True, text=True)
        if r.returncode:
            print(n, "PATCH DOES NOT APPLY (rebase it)", r.stderr[:200]); bad += 1; continue
        def run(c):
            return c, subprocess.run(["./check", c, "quick"], cwd=VERIF, env=env, capture_output=True, text=True)
        first = run("C02")
        with ThreadPoolExecutor(max_workers=8) as ex:
            res = [first] + list(ex.map(run, [c for c in checks if c != "C02"]))
        fired = {c: [l.strip()[:150] for l in p.stdout.splitlines() if l.strip().startswith("violation rule=")][:2] for c, p in res if p.returncode}
        unexpected = {c: v for c, v in fired.items() if c not in EXPECTED.get(n, {})}
        print(n, "silent" if not fired else ("expected: %s" % sorted(fired) if not unexpected else "FALSE ALARM %s" % json.dumps(unexpected)), flush=True)
        bad += 1 if unexpected else 0
finally:
    subprocess.run(["git", "-C", "/repo", "worktree", "remove", "--force", wt])
sys.exit(1 if bad else 0)
