#!/usr/bin/env python3
"""Regenerate DESIGN.md section 0.5 (which checks catch which seeded changes) from seeded/*/meta.json (written by tools/seedtest.py)."""
import json, os, re
VERIF = os.path.dirname(os.path.dirname(os.path.abspath(__file__)))
rows = []
own = other_only = missed = 0
for n in sorted(os.listdir(os.path.join(VERIF, "seeded"))):
    d = os.path.join(VERIF, "seeded", n)
    mp = os.path.join(d, "meta.json")
    if not os.path.isfile(mp):
        continue
    m = json.load(open(mp))
    title = open(os.path.join(d, "README.md")).read().strip().splitlines()
    title = [l for l in title if l.startswith("#")][:1]
    title = re.sub(r"^#+\s*", "", title[0]) if title else ""
    title = re.sub(r"^C\d\d\s*(seed|/ change|demo)?\s*\d*\s*[-:]\s*", "", title)
    det = m.get("detected_by") or {}
    rules = sorted(set(re.search(r"rule=(R[\d.]+\w*)", v).group(1) for vs in det.get(m["property"], []) for v in [vs] if re.search(r"rule=(R[\d.]+\w*)", v)))
    others = sorted(k for k in det if k != m["property"])
    if m["property"] in det:
        own += 1
    elif det:
        other_only += 1
    else:
        missed += 1
    rows.append("| %s | %s | %s | %s |" % (n, title.replace("|", "/")[:110], (", ".join(rules) or ("-" if m["property"] not in det else "fires")), ", ".join(others) or "-"))
out = []
out.append("### 0.5 Which checks catch which seeded changes\n")
out.append("Produced by `tools/seedtest.py` (apply the patch to /repo, run every registered quick check, revert) and formatted by\n`tools/seedtable.py`. %d seeded changes: %d are reported by the check of their own property, %d only by checks of other\nproperties, %d by none. \"own rules\" are the rule ids of the seed's own property that fire.\n" % (len(rows), own, other_only, missed))
out.append("| seed | change | own rules | other checks that fire |")
out.append("|---|---|---|---|")
out.extend(rows)
text = "\n".join(out) + "\n"
p = os.path.join(VERIF, "DESIGN.md")
s = open(p).read()
a, b = "<!-- SEEDTABLE BEGIN -->", "<!-- SEEDTABLE END -->"
if a in s:
    s = s[:s.index(a) + len(a)] + "\n" + text + s[s.index(b):]
else:
    s = s.replace("## 1. The code base, as read", a + "\n" + text + b + "\n\n## 1. The code base, as read", 1)
open(p, "w").write(s)
print("seeds %d own %d other-only %d missed %d" % (len(rows), own, other_only, missed))
