// mirfacts: a rustc_private driver that serialises the type-checked program
// (MIR bodies with resolved callees, ADT definitions with attributes, constant
// registries) of every workspace crate to JSON.  It is injected with
// RUSTC_WORKSPACE_WRAPPER under `cargo check`; all rules are evaluated on the
// emitted facts by /verif/rules/*.py.  Nothing of the analysed program runs.
#![feature(rustc_private)]
#![allow(clippy::all)]

extern crate rustc_abi;
extern crate rustc_ast;
extern crate rustc_driver;
extern crate rustc_hir;
extern crate rustc_hir_pretty;
extern crate rustc_interface;
extern crate rustc_middle;
extern crate rustc_session;
extern crate rustc_span;

use rustc_driver::{Callbacks, Compilation};
use rustc_hir as hir;
use rustc_hir::def::{DefKind, Res};
use rustc_hir::def_id::DefId;
use rustc_interface::interface::Compiler;
use rustc_middle::mir::*;
use rustc_middle::ty::print::{with_no_trimmed_paths as wntp, with_resolve_crate_name};
use rustc_middle::ty::print::PrintTraitRefExt;
use rustc_middle::ty::{self, Ty, TyCtxt};
use rustc_span::Span;
use std::fmt::Write as _;

// local items are printed with their crate name so that paths read the same
// from every crate of the workspace
macro_rules! with_no_trimmed_paths {
    ($e:expr) => {
        with_resolve_crate_name!(wntp!($e))
    };
}

// ---------------------------------------------------------------- JSON helpers

fn esc(s: &str) -> String {
    let mut o = String::with_capacity(s.len() + 2);
    o.push('"');
    for c in s.chars() {
        match c {
            '"' => o.push_str("\\\""),
            '\\' => o.push_str("\\\\"),
            '\n' => o.push_str("\\n"),
            '\r' => o.push_str("\\r"),
            '\t' => o.push_str("\\t"),
            c if (c as u32) < 0x20 => {
                let _ = write!(o, "\\u{:04x}", c as u32);
            }
            c => o.push(c),
        }
    }
    o.push('"');
    o
}

fn arr(items: Vec<String>) -> String {
    let mut o = String::from("[");
    for (i, it) in items.iter().enumerate() {
        if i > 0 {
            o.push(',');
        }
        o.push_str(it);
    }
    o.push(']');
    o
}

struct Obj(String, bool);
impl Obj {
    fn new() -> Obj {
        Obj(String::from("{"), true)
    }
    fn raw(mut self, k: &str, v: String) -> Obj {
        if !self.1 {
            self.0.push(',');
        }
        self.1 = false;
        self.0.push_str(&esc(k));
        self.0.push(':');
        self.0.push_str(&v);
        self
    }
    fn s(self, k: &str, v: &str) -> Obj {
        let e = esc(v);
        self.raw(k, e)
    }
    fn n(self, k: &str, v: i128) -> Obj {
        self.raw(k, v.to_string())
    }
    fn b(self, k: &str, v: bool) -> Obj {
        self.raw(k, if v { "true".into() } else { "false".into() })
    }
    fn end(mut self) -> String {
        self.0.push('}');
        self.0
    }
}

// ---------------------------------------------------------------- naming

fn key<'tcx>(tcx: TyCtxt<'tcx>, did: DefId) -> String {
    format!(
        "{}{}",
        tcx.crate_name(did.krate),
        tcx.def_path(did).to_string_no_crate_verbose()
    )
}

fn pretty<'tcx>(tcx: TyCtxt<'tcx>, did: DefId) -> String {
    with_no_trimmed_paths!(tcx.def_path_str(did))
}

fn ty_s<'tcx>(ty: Ty<'tcx>) -> String {
    with_no_trimmed_paths!(format!("{}", ty))
}

fn span_obj<'tcx>(tcx: TyCtxt<'tcx>, sp: Span) -> (String, i128, bool) {
    let exp = sp.from_expansion();
    let sp2 = sp.source_callsite();
    let sm = tcx.sess.source_map();
    if sp2.is_dummy() {
        return (String::from("?"), 0, exp);
    }
    let loc = sm.lookup_char_pos(sp2.lo());
    let f = format!("{}", loc.file.name.prefer_local());
    (f, loc.line as i128, exp)
}

// ---------------------------------------------------------------- MIR pieces

fn place_s<'tcx>(tcx: TyCtxt<'tcx>, body: &Body<'tcx>, p: &Place<'tcx>) -> String {
    let mut projs = Vec::new();
    let mut cur_ty = PlaceTy::from_ty(body.local_decls[p.local].ty);
    for elem in p.projection.iter() {
        let s = match elem {
            ProjectionElem::Deref => "\"deref\"".to_string(),
            ProjectionElem::Field(f, _) => Obj::new().n("f", f.as_usize() as i128).end(),
            ProjectionElem::Downcast(name, idx) => {
                let nm = match name {
                    Some(n) => n.to_string(),
                    None => match cur_ty.ty.kind() {
                        ty::Adt(adt, _) if adt.is_enum() => adt.variant(idx).name.to_string(),
                        _ => format!("#{}", idx.as_usize()),
                    },
                };
                Obj::new().s("dc", &nm).n("vi", idx.as_usize() as i128).end()
            }
            ProjectionElem::Index(l) => Obj::new().n("idx", l.as_usize() as i128).end(),
            ProjectionElem::ConstantIndex { offset, from_end, .. } => Obj::new()
                .n("cidx", offset as i128)
                .b("from_end", from_end)
                .end(),
            ProjectionElem::Subslice { from, to, from_end } => Obj::new()
                .n("sub_from", from as i128)
                .n("sub_to", to as i128)
                .b("from_end", from_end)
                .end(),
            ProjectionElem::OpaqueCast(_) => "\"opaque\"".to_string(),
            ProjectionElem::UnwrapUnsafeBinder(_) => "\"unwrap_binder\"".to_string(),
        };
        projs.push(s);
        cur_ty = cur_ty.projection_ty(tcx, elem);
    }
    let o = Obj::new().n("l", p.local.as_usize() as i128);
    if projs.is_empty() {
        o.end()
    } else {
        o.raw("p", arr(projs)).end()
    }
}

fn const_s<'tcx>(tcx: TyCtxt<'tcx>, owner: DefId, c: &ConstOperand<'tcx>) -> String {
    let ty = c.const_.ty();
    let mut o = Obj::new().s("ty", &ty_s(ty));
    if let ty::FnDef(did, gargs) = *ty.kind() {
        o = o.s("fn", &key(tcx, did)).s("fn_path", &pretty(tcx, did));
        let ga: Vec<String> = gargs.iter().map(|a| esc(&with_no_trimmed_paths!(format!("{}", a)))).collect();
        o = o.raw("gargs", arr(ga));
        let tenv = ty::TypingEnv::post_analysis(tcx, owner);
        if let Ok(Some(inst)) = ty::Instance::try_resolve(tcx, tenv, did, gargs) {
            let rdid = inst.def_id();
            let kind = match inst.def {
                ty::InstanceKind::Item(_) => "item",
                ty::InstanceKind::Virtual(..) => "virtual",
                ty::InstanceKind::Intrinsic(_) => "intrinsic",
                ty::InstanceKind::ClosureOnceShim { .. } => "closure_once_shim",
                ty::InstanceKind::FnPtrShim(..) => "fnptr_shim",
                ty::InstanceKind::DropGlue(..) => "drop_glue",
                ty::InstanceKind::CloneShim(..) => "clone_shim",
                ty::InstanceKind::ReifyShim(..) => "reify_shim",
                ty::InstanceKind::VTableShim(..) => "vtable_shim",
                _ => "other",
            };
            o = o
                .s("res", &key(tcx, rdid))
                .s("res_path", &pretty(tcx, rdid))
                .s("res_kind", kind)
                .b("res_local", rdid.is_local());
            let ra: Vec<String> = inst.args.iter().map(|a| esc(&with_no_trimmed_paths!(format!("{}", a)))).collect();
            o = o.raw("res_args", arr(ra));
        }
        return o.end();
    }
    if let Some(sdid) = c.check_static_ptr(tcx) {
        o = o.s("static", &key(tcx, sdid)).b("static_mut", tcx.is_mutable_static(sdid));
    }
    let repr = with_no_trimmed_paths!(format!("{}", c.const_));
    o = o.s("repr", &repr);
    if ty.is_integral() || ty.is_bool() || ty.is_char() {
        let tenv = ty::TypingEnv::post_analysis(tcx, owner);
        if let Some(si) = c.const_.try_eval_scalar_int(tcx, tenv) {
            let size = si.size();
            let v: i128 = if ty.is_signed() {
                si.to_int(size)
            } else {
                si.to_uint(size) as i128
            };
            o = o.s("int", &v.to_string());
        }
    }
    o.end()
}

fn operand_s<'tcx>(tcx: TyCtxt<'tcx>, owner: DefId, body: &Body<'tcx>, op: &Operand<'tcx>) -> String {
    match op {
        Operand::Copy(p) => Obj::new().raw("copy", place_s(tcx, body, p)).end(),
        Operand::Move(p) => Obj::new().raw("move", place_s(tcx, body, p)).end(),
        Operand::Constant(c) => Obj::new().raw("const", const_s(tcx, owner, c)).end(),
        #[allow(unreachable_patterns)]
        _ => Obj::new().s("other", &format!("{:?}", op)).end(),
    }
}

fn adt_variant_name<'tcx>(adt: ty::AdtDef<'tcx>, idx: rustc_abi::VariantIdx) -> String {
    adt.variant(idx).name.to_string()
}

fn rvalue_s<'tcx>(tcx: TyCtxt<'tcx>, owner: DefId, body: &Body<'tcx>, rv: &Rvalue<'tcx>) -> String {
    let op = |o: &Operand<'tcx>| operand_s(tcx, owner, body, o);
    match rv {
        Rvalue::Use(o) => Obj::new().s("k", "use").raw("op", op(o)).end(),
        Rvalue::Repeat(o, _) => Obj::new().s("k", "repeat").raw("op", op(o)).end(),
        Rvalue::Ref(_, bk, p) => Obj::new()
            .s("k", "ref")
            .b("mut", matches!(bk, BorrowKind::Mut { .. }))
            .raw("place", place_s(tcx, body, p))
            .end(),
        Rvalue::RawPtr(m, p) => Obj::new()
            .s("k", "rawptr")
            .s("m", &format!("{:?}", m))
            .raw("place", place_s(tcx, body, p))
            .end(),
        Rvalue::ThreadLocalRef(d) => Obj::new().s("k", "tls").s("def", &key(tcx, *d)).end(),
        Rvalue::Cast(ck, o, t) => {
            let from = o.ty(&body.local_decls, tcx);
            Obj::new()
                .s("k", "cast")
                .s("ck", &format!("{:?}", ck))
                .raw("op", op(o))
                .s("from", &ty_s(from))
                .s("to", &ty_s(*t))
                .end()
        }
        Rvalue::BinaryOp(bo, ab) => {
            let (a, b) = &**ab;
            Obj::new()
                .s("k", "binop")
                .s("op", &format!("{:?}", bo))
                .raw("a", op(a))
                .raw("b", op(b))
                .s("aty", &ty_s(a.ty(&body.local_decls, tcx)))
                .end()
        }
        Rvalue::UnaryOp(uo, a) => Obj::new()
            .s("k", "unop")
            .s("op", &format!("{:?}", uo))
            .raw("a", op(a))
            .s("aty", &ty_s(a.ty(&body.local_decls, tcx)))
            .end(),
        Rvalue::Discriminant(p) => {
            let pty = p.ty(&body.local_decls, tcx).ty;
            let mut o = Obj::new().s("k", "discr").raw("place", place_s(tcx, body, p)).s("ty", &ty_s(pty));
            if let ty::Adt(adt, _) = pty.kind() {
                o = o.s("adt", &key(tcx, adt.did()));
            }
            o.end()
        }
        Rvalue::Aggregate(ak, ops) => {
            let mut o = Obj::new().s("k", "agg");
            match &**ak {
                AggregateKind::Array(t) => {
                    o = o.s("ak", "array").s("elem", &ty_s(*t));
                }
                AggregateKind::Tuple => {
                    o = o.s("ak", "tuple");
                }
                AggregateKind::Adt(did, vi, _, _, _) => {
                    let adt = tcx.adt_def(*did);
                    o = o
                        .s("ak", "adt")
                        .s("adt", &key(tcx, *did))
                        .s("variant", &adt_variant_name(adt, *vi))
                        .n("vi", vi.as_usize() as i128);
                }
                AggregateKind::Closure(did, _) => {
                    o = o.s("ak", "closure").s("def", &key(tcx, *did));
                }
                AggregateKind::Coroutine(did, _) | AggregateKind::CoroutineClosure(did, _) => {
                    o = o.s("ak", "coroutine").s("def", &key(tcx, *did));
                }
                AggregateKind::RawPtr(..) => {
                    o = o.s("ak", "rawptr");
                }
            }
            let v: Vec<String> = ops.iter().map(|x| op(x)).collect();
            o.raw("ops", arr(v)).end()
        }
        Rvalue::ShallowInitBox(o, t) => Obj::new().s("k", "box").raw("op", op(o)).s("ty", &ty_s(*t)).end(),
        Rvalue::CopyForDeref(p) => Obj::new().s("k", "use").raw("op", Obj::new().raw("copy", place_s(tcx, body, p)).end()).end(),
        Rvalue::NullaryOp(no, t) => Obj::new().s("k", "nullop").s("op", &format!("{:?}", no)).s("ty", &ty_s(*t)).end(),
        Rvalue::WrapUnsafeBinder(o, _) => Obj::new().s("k", "use").raw("op", op(o)).end(),
    }
}

fn assert_kind_s<'tcx>(tcx: TyCtxt<'tcx>, owner: DefId, body: &Body<'tcx>, m: &AssertKind<Operand<'tcx>>) -> String {
    let op = |o: &Operand<'tcx>| operand_s(tcx, owner, body, o);
    let t = |o: &Operand<'tcx>| ty_s(o.ty(&body.local_decls, tcx));
    match m {
        AssertKind::BoundsCheck { len, index } => Obj::new().s("ak", "BoundsCheck").raw("len", op(len)).raw("index", op(index)).end(),
        AssertKind::Overflow(bo, a, b) => Obj::new()
            .s("ak", "Overflow")
            .s("op", &format!("{:?}", bo))
            .raw("a", op(a))
            .raw("b", op(b))
            .s("ty", &t(a))
            .end(),
        AssertKind::OverflowNeg(a) => Obj::new().s("ak", "OverflowNeg").raw("a", op(a)).s("ty", &t(a)).end(),
        AssertKind::DivisionByZero(a) => Obj::new().s("ak", "DivisionByZero").raw("a", op(a)).s("ty", &t(a)).end(),
        AssertKind::RemainderByZero(a) => Obj::new().s("ak", "RemainderByZero").raw("a", op(a)).s("ty", &t(a)).end(),
        other => Obj::new().s("ak", "Other").s("repr", &format!("{:?}", other)).end(),
    }
}

fn bb(b: BasicBlock) -> i128 {
    b.as_usize() as i128
}

fn unwind_s(u: &UnwindAction) -> String {
    match u {
        UnwindAction::Cleanup(b) => b.as_usize().to_string(),
        _ => "null".to_string(),
    }
}

fn terminator_s<'tcx>(tcx: TyCtxt<'tcx>, owner: DefId, body: &Body<'tcx>, t: &Terminator<'tcx>) -> String {
    let (f, line, exp) = span_obj(tcx, t.source_info.span);
    let base = |k: &str| Obj::new().s("k", k).s("file", &f).n("line", line).b("exp", exp);
    let op = |o: &Operand<'tcx>| operand_s(tcx, owner, body, o);
    match &t.kind {
        TerminatorKind::Goto { target } => base("goto").n("t", bb(*target)).end(),
        TerminatorKind::SwitchInt { discr, targets } => {
            let mut cases = Vec::new();
            for (v, b) in targets.iter() {
                cases.push(format!("[\"{}\",{}]", v, b.as_usize()));
            }
            base("switch")
                .raw("discr", op(discr))
                .s("dty", &ty_s(discr.ty(&body.local_decls, tcx)))
                .raw("cases", arr(cases))
                .n("otherwise", bb(targets.otherwise()))
                .end()
        }
        TerminatorKind::UnwindResume => base("resume").end(),
        TerminatorKind::UnwindTerminate(_) => base("terminate").end(),
        TerminatorKind::Return => base("return").end(),
        TerminatorKind::Unreachable => base("unreachable").end(),
        TerminatorKind::Drop { place, target, unwind, .. } => {
            let pty = place.ty(&body.local_decls, tcx).ty;
            base("drop")
                .raw("place", place_s(tcx, body, place))
                .s("ty", &ty_s(pty))
                .n("t", bb(*target))
                .raw("unwind", unwind_s(unwind))
                .end()
        }
        TerminatorKind::Call { func, args, destination, target, unwind, fn_span, .. } => {
            let a: Vec<String> = args.iter().map(|x| op(&x.node)).collect();
            let aty: Vec<String> = args.iter().map(|x| esc(&ty_s(x.node.ty(&body.local_decls, tcx)))).collect();
            let (_, fline, _) = span_obj(tcx, *fn_span);
            let mut o = base("call")
                .raw("func", op(func))
                .s("fty", &ty_s(func.ty(&body.local_decls, tcx)))
                .raw("args", arr(a))
                .raw("atys", arr(aty))
                .raw("dest", place_s(tcx, body, destination))
                .s("dty", &ty_s(destination.ty(&body.local_decls, tcx).ty))
                .n("fn_line", fline)
                .raw("unwind", unwind_s(unwind));
            o = match target {
                Some(b) => o.n("t", bb(*b)),
                None => o.raw("t", "null".into()),
            };
            o.end()
        }
        TerminatorKind::TailCall { func, args, .. } => {
            let a: Vec<String> = args.iter().map(|x| op(&x.node)).collect();
            base("tailcall").raw("func", op(func)).raw("args", arr(a)).end()
        }
        TerminatorKind::Assert { cond, expected, msg, target, unwind } => base("assert")
            .raw("cond", op(cond))
            .b("expected", *expected)
            .raw("msg", assert_kind_s(tcx, owner, body, msg))
            .n("t", bb(*target))
            .raw("unwind", unwind_s(unwind))
            .end(),
        TerminatorKind::FalseEdge { real_target, .. } => base("goto").n("t", bb(*real_target)).end(),
        TerminatorKind::FalseUnwind { real_target, .. } => base("goto").n("t", bb(*real_target)).end(),
        other => base("other").s("repr", &format!("{:?}", other)).end(),
    }
}

fn statement_s<'tcx>(tcx: TyCtxt<'tcx>, owner: DefId, body: &Body<'tcx>, s: &Statement<'tcx>) -> Option<String> {
    let (_f, line, exp) = span_obj(tcx, s.source_info.span);
    match &s.kind {
        StatementKind::Assign(b) => {
            let (p, rv) = &**b;
            Some(
                Obj::new()
                    .s("k", "assign")
                    .n("line", line)
                    .b("exp", exp)
                    .raw("place", place_s(tcx, body, p))
                    .raw("rv", rvalue_s(tcx, owner, body, rv))
                    .end(),
            )
        }
        StatementKind::SetDiscriminant { place, variant_index } => Some(
            Obj::new()
                .s("k", "setdiscr")
                .n("line", line)
                .raw("place", place_s(tcx, body, place))
                .n("vi", variant_index.as_usize() as i128)
                .end(),
        ),
        StatementKind::Intrinsic(i) => Some(Obj::new().s("k", "intrinsic").n("line", line).s("repr", &format!("{:?}", i)).end()),
        _ => None,
    }
}

fn blocks_s<'tcx>(tcx: TyCtxt<'tcx>, did: DefId, body: &Body<'tcx>) -> String {
    let mut blocks = Vec::new();
    for (_i, data) in body.basic_blocks.iter_enumerated() {
        let stmts: Vec<String> = data.statements.iter().filter_map(|s| statement_s(tcx, did, body, s)).collect();
        let term = match &data.terminator {
            Some(t) => terminator_s(tcx, did, body, t),
            None => "null".to_string(),
        };
        blocks.push(Obj::new().raw("stmts", arr(stmts)).raw("term", term).b("cleanup", data.is_cleanup).end());
    }
    arr(blocks)
}

fn body_s<'tcx>(tcx: TyCtxt<'tcx>, did: DefId, kind: &str) -> String {
    let body = tcx.optimized_mir(did);
    let (file, line, exp) = span_obj(tcx, body.span);
    let sm = tcx.sess.source_map();
    let hi_line = if body.span.source_callsite().is_dummy() { 0 } else { sm.lookup_char_pos(body.span.source_callsite().hi()).line as i128 };
    let locals: Vec<String> = body
        .local_decls
        .iter()
        .map(|d| Obj::new().s("ty", &ty_s(d.ty)).end())
        .collect();
    let mut dbg = Vec::new();
    for v in body.var_debug_info.iter() {
        if let VarDebugInfoContents::Place(p) = &v.value {
            dbg.push(Obj::new().s("name", &v.name.to_string()).raw("place", place_s(tcx, body, p)).end());
        }
    }
    let mut blocks = Vec::new();
    for (_i, data) in body.basic_blocks.iter_enumerated() {
        let stmts: Vec<String> = data.statements.iter().filter_map(|s| statement_s(tcx, did, body, s)).collect();
        let term = match &data.terminator {
            Some(t) => terminator_s(tcx, did, body, t),
            None => "null".to_string(),
        };
        blocks.push(Obj::new().raw("stmts", arr(stmts)).raw("term", term).b("cleanup", data.is_cleanup).end());
    }
    let mut o = Obj::new()
        .s("id", &key(tcx, did))
        .s("path", &pretty(tcx, did))
        .s("kind", kind)
        .s("file", &file)
        .n("line", line)
        .n("line_hi", hi_line)
        .b("exp", exp)
        .n("arg_count", body.arg_count as i128)
        .raw("locals", arr(locals))
        .raw("dbg", arr(dbg))
        .raw("blocks", arr(blocks));
    // promoted constants (e.g. `&JmpWhen::False` in a comparison): their tiny bodies, so that rules can evaluate them
    let mut proms = Vec::new();
    for pb in tcx.promoted_mir(did).iter() {
        proms.push(Obj::new().raw("blocks", blocks_s(tcx, did, pb)).end());
    }
    o = o.raw("promoted", arr(proms));
    // signature
    let fty = tcx.type_of(did).instantiate_identity();
    o = o.s("fn_ty", &ty_s(fty));
    if let Some(parent) = tcx.opt_parent(did) {
        if let DefKind::Impl { of_trait } = tcx.def_kind(parent) {
            o = o.s("impl_self", &ty_s(tcx.type_of(parent).instantiate_identity())).b("impl_of_trait", of_trait);
        }
    }
    if matches!(tcx.def_kind(did), DefKind::Fn | DefKind::AssocFn) {
        o = o.s("vis", &format!("{:?}", tcx.visibility(did)));
    }
    o.end()
}

// ---------------------------------------------------------------- HIR facts

fn attrs_s<'tcx>(tcx: TyCtxt<'tcx>, did: DefId) -> String {
    let mut v = Vec::new();
    if let Some(ld) = did.as_local() {
        let hid = tcx.local_def_id_to_hir_id(ld);
        for a in tcx.hir_attrs(hid) {
            let s = rustc_hir_pretty::attribute_to_string(&tcx, a);
            v.push(esc(s.trim()));
        }
    }
    arr(v)
}

fn adts_s<'tcx>(tcx: TyCtxt<'tcx>) -> Vec<String> {
    let mut out = Vec::new();
    for ld in tcx.hir_crate_items(()).definitions() {
        let did = ld.to_def_id();
        let dk = tcx.def_kind(did);
        if !matches!(dk, DefKind::Enum | DefKind::Struct | DefKind::Union) {
            continue;
        }
        let adt = tcx.adt_def(did);
        let mut variants = Vec::new();
        for (vi, v) in adt.variants().iter_enumerated() {
            let mut fields = Vec::new();
            for f in v.fields.iter() {
                let fty = tcx.type_of(f.did).instantiate_identity();
                fields.push(
                    Obj::new()
                        .s("name", &f.name.to_string())
                        .s("ty", &ty_s(fty))
                        .raw("attrs", attrs_s(tcx, f.did))
                        .end(),
                );
            }
            let mut o = Obj::new().s("name", &v.name.to_string()).n("vi", vi.as_usize() as i128);
            if adt.is_enum() {
                let d = adt.discriminant_for_variant(tcx, vi);
                o = o.s("discr", &d.val.to_string());
            }
            o = o.raw("attrs", attrs_s(tcx, v.def_id)).raw("fields", arr(fields));
            variants.push(o.end());
        }
        let (file, line, _) = span_obj(tcx, tcx.def_span(did));
        out.push(
            Obj::new()
                .s("id", &key(tcx, did))
                .s("path", &pretty(tcx, did))
                .s("kind", &format!("{:?}", dk))
                .s("file", &file)
                .n("line", line)
                .raw("attrs", attrs_s(tcx, did))
                .raw("variants", arr(variants))
                .end(),
        );
    }
    out
}

fn peel<'a, 'tcx>(mut e: &'a hir::Expr<'tcx>) -> &'a hir::Expr<'tcx> {
    loop {
        match &e.kind {
            hir::ExprKind::AddrOf(_, _, inner) => e = inner,
            hir::ExprKind::Cast(inner, _) => e = inner,
            hir::ExprKind::DropTemps(inner) => e = inner,
            hir::ExprKind::Block(b, _) if b.stmts.is_empty() && b.expr.is_some() => e = b.expr.unwrap(),
            _ => return e,
        }
    }
}

// const/static items whose value is an array of (string literal, path) tuples
fn registries_s<'tcx>(tcx: TyCtxt<'tcx>) -> Vec<String> {
    let mut out = Vec::new();
    for ld in tcx.hir_crate_items(()).definitions() {
        let did = ld.to_def_id();
        if !matches!(tcx.def_kind(did), DefKind::Const | DefKind::Static { .. }) {
            continue;
        }
        let Some(body) = tcx.hir_maybe_body_owned_by(ld) else { continue };
        let e = peel(body.value);
        let hir::ExprKind::Array(elems) = &e.kind else { continue };
        let tr = tcx.typeck(ld);
        let mut rows = Vec::new();
        let mut ok = !elems.is_empty();
        for el in elems.iter() {
            let el = peel(el);
            let hir::ExprKind::Tup(parts) = &el.kind else {
                ok = false;
                break;
            };
            if parts.len() != 2 {
                ok = false;
                break;
            }
            let k = peel(&parts[0]);
            let name = match &k.kind {
                hir::ExprKind::Lit(l) => match l.node {
                    rustc_ast::LitKind::Str(s, _) => s.to_string(),
                    _ => {
                        ok = false;
                        break;
                    }
                },
                _ => {
                    ok = false;
                    break;
                }
            };
            let v = peel(&parts[1]);
            let target = match &v.kind {
                hir::ExprKind::Path(qp) => match tr.qpath_res(qp, v.hir_id) {
                    Res::Def(_, d) => Some(d),
                    _ => None,
                },
                _ => None,
            };
            let (_, line, _) = span_obj(tcx, el.span);
            let mut o = Obj::new().s("name", &name).n("line", line);
            if let Some(d) = target {
                o = o.s("target", &key(tcx, d)).s("target_path", &pretty(tcx, d));
            }
            rows.push(o.end());
        }
        if !ok {
            continue;
        }
        let (file, line, _) = span_obj(tcx, tcx.def_span(did));
        out.push(
            Obj::new()
                .s("id", &key(tcx, did))
                .s("path", &pretty(tcx, did))
                .s("file", &file)
                .n("line", line)
                .s("ty", &ty_s(tcx.type_of(did).instantiate_identity()))
                .raw("rows", arr(rows))
                .end(),
        );
    }
    out
}

// trait impls (who implements what) - used by the interior-mutability walk and
// the sibling rules
fn impls_s<'tcx>(tcx: TyCtxt<'tcx>) -> Vec<String> {
    let mut out = Vec::new();
    for ld in tcx.hir_crate_items(()).definitions() {
        let did = ld.to_def_id();
        if let DefKind::Impl { of_trait } = tcx.def_kind(did) {
            let mut o = Obj::new()
                .s("id", &key(tcx, did))
                .s("self", &ty_s(tcx.type_of(did).instantiate_identity()))
                .b("of_trait", of_trait)
                .raw("attrs", attrs_s(tcx, did));
            if of_trait {
                let tr = tcx.impl_trait_ref(did).instantiate_identity();
                o = o.s("trait", &with_no_trimmed_paths!(format!("{}", tr.print_only_trait_path())));
            }
            let (file, line, _) = span_obj(tcx, tcx.def_span(did));
            o = o.s("file", &file).n("line", line);
            out.push(o.end());
        }
    }
    out
}

fn dump<'tcx>(tcx: TyCtxt<'tcx>) {
    let Ok(outdir) = std::env::var("MIRFACTS_OUT") else { return };
    let krate = tcx.crate_name(rustc_hir::def_id::LOCAL_CRATE).to_string();
    let mut bodies = Vec::new();
    for ld in tcx.mir_keys(()) {
        let did = ld.to_def_id();
        let kind = match tcx.def_kind(did) {
            DefKind::Fn => "fn",
            DefKind::AssocFn => "assoc_fn",
            DefKind::Closure => "closure",
            _ => continue,
        };
        if tcx.is_constructor(did) {
            continue;
        }
        bodies.push(body_s(tcx, did, kind));
    }
    let crate_types: Vec<String> = tcx.crate_types().iter().map(|c| esc(&format!("{:?}", c))).collect();
    let cfgs: Vec<String> = {
        let mut v: Vec<String> = tcx
            .sess
            .psess
            .config
            .iter()
            .map(|(k, v)| match v {
                Some(v) => format!("{}={}", k, v),
                None => k.to_string(),
            })
            .filter(|s| s.starts_with("feature") || s == "test" || s == "debug_assertions" || s.starts_with("rscel"))
            .collect();
        v.sort();
        v.iter().map(|s| esc(s)).collect()
    };
    let n = bodies.len();
    let pkg = std::env::var("CARGO_PKG_NAME").unwrap_or_default();
    let doc = Obj::new()
        .s("crate", &krate)
        .s("pkg", &pkg)
        .s("manifest_dir", &std::env::var("CARGO_MANIFEST_DIR").unwrap_or_default())
        .raw("crate_types", arr(crate_types))
        .raw("cfg", arr(cfgs))
        .n("n_bodies", n as i128)
        .raw("adts", arr(adts_s(tcx)))
        .raw("registries", arr(registries_s(tcx)))
        .raw("impls", arr(impls_s(tcx)))
        .raw("bodies", arr(bodies))
        .end();
    let path = format!("{}/{}.{}.{}.json", outdir, pkg, krate, std::process::id());
    let tmp = format!("{}.tmp", path);
    std::fs::write(&tmp, doc).expect("write facts");
    std::fs::rename(&tmp, &path).expect("rename facts");
}

struct Cb;
impl Callbacks for Cb {
    fn after_analysis<'tcx>(&mut self, _c: &Compiler, tcx: TyCtxt<'tcx>) -> Compilation {
        dump(tcx);
        Compilation::Continue
    }
}

fn main() {
    let mut args: Vec<String> = std::env::args().collect();
    // invoked as RUSTC_WORKSPACE_WRAPPER: argv[1] is the real rustc path
    if args.len() > 1 && (args[1].ends_with("rustc") || args[1].contains("/rustc")) {
        args.remove(1);
    }
    let mut cb = Cb;
    rustc_driver::run_compiler(&args, &mut cb);
}
