use std::process::Command;
fn main() {
    let rustc = std::env::var("RUSTC").unwrap_or_else(|_| "rustc".into());
    let out = Command::new(rustc).arg("--print").arg("sysroot").output().expect("sysroot");
    let sysroot = String::from_utf8(out.stdout).unwrap();
    let sysroot = sysroot.trim();
    println!("cargo:rustc-link-search=native={}/lib", sysroot);
    println!("cargo:rustc-env=MIRFACTS_SYSROOT={}", sysroot);
}
