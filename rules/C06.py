"""C06 collections: literals, indexing (incl. negative), membership, concatenation, size.

Decided from symbolic execution (symex) of the value layer and of the parser / VM:
  R06.1 list literals: emitted layout e1 .. en MKLIST(n); the VM's value of that code and the folder's term are both list_of([e1..en])
  R06.2 map literals: the VM's value of the emitted code and the folder's term are both map_of([(k1,v1) .. (kn,vn)]) in SOURCE order,
        and map_of inserts its entries in that order with a replacing insert (so the last entry wins, identically in both evaluators)
  R06.3 l[i]: every path of CelValue::index that returns an element returns list[E] under a bounds test `E >= len -> error` of the SAME E;
        E is the index itself for uint, the index under `i < 0 == false` for int, and len + i under `len + i < 0 == false` for negative int;
        no sign-changing cast of the index; every other list index shape is an error; m[k]: present key -> its value, absent key ->
        the absent-field (Attribute) error, non-string key -> error
  R06.4 `in`: list -> element comparison, map -> contains_key(map, needle), string -> haystack.contains(needle) with the RIGHT operand as
        haystack, anything else -> error
  R06.5 `+` on strings / bytes / lists appends the right operand to the left one
  R06.6 size(): length of the receiver / argument for string, bytes, list
  R06.7 m.k: map field first, method only when the key is absent (with C12 R12.2)
Not decided: element values; nested structure; UTF-8 length is String::len (std)."""
import re
import lib, mirq, symex, semtables, tplrules, vmtable

CV = "rscel::types::cel_value::CelValue"


def paths_of(F, path, nargs=2, max_paths=4000):
    b = F.body(path)
    pol = semtables.LogicPolicy()
    pol.max_paths = max_paths
    it = symex.Interp(F, pol)
    args = [symex.U("a", CV), symex.U("b", CV)][:nargs]
    outs = it.run(b, args)
    rows = []
    for st, ret in outs:
        var = {}
        nots = {}
        eqs = []
        for c in st.cond:
            if c[0] == "variant":
                var.setdefault(c[3], c[2])
            elif c[0] == "variant-not":
                nots.setdefault(c[3], set()).update(c[2])
            elif c[0] == "eq":
                eqs.append((c[1], c[2]))
            elif c[0] == "ne":
                eqs.append((c[1], 1 if list(c[2]) == [0] else ("not", tuple(c[2]))))
        rows.append({"var": var, "not": nots, "eq": eqs, "ret": symex.render(ret)})
    return rows


def norm_usize(e):
    """`Result::unwrap(TryInto::try_into<..>(X))` and `as usize(X)` denote the same conversion of a value already known to be >= 0"""
    pre = "Result::unwrap(TryInto::try_into<T><-U("
    while pre in e:
        i = e.index(pre)
        j = i + len(pre)
        depth = 1
        k = j
        while k < len(e) and depth:
            if e[k] == "(":
                depth += 1
            elif e[k] == ")":
                depth -= 1
            k += 1
        inner = e[j:k - 1]
        # k now points after the `)` closing try_into(...); the next char closes unwrap(
        e = e[:i] + "as usize(" + inner + ")" + e[k + 1:]
    return e


def run(chk, tier):
    F = lib.get_facts()
    chk.rule("R06.1", "list literal: VM value of the emitted code = folder term = list_of(elements in source order)")
    chk.rule("R06.2", "map literal: VM value = folder term = map_of(entries in source order); map_of inserts in order with replacement (last entry wins)")
    chk.rule("R06.3", "index: element returned only under a bounds test of the same index expression; sign rules; error otherwise; map keys")
    chk.rule("R06.4", "`in`: list membership, map key presence, substring with the right operand as haystack, error otherwise")
    chk.rule("R06.5", "+ on strings / bytes / lists appends right to left")
    chk.rule("R06.6", "size() is the length of string / bytes / list receiver or argument")
    chk.rule("R06.7", "map field access wins over a method of the same name")

    # ---------------- R06.1 / R06.2 : templates
    db = tplrules.load(F)
    vm, eff = tplrules.vm_effects(F)
    sem = tplrules.vm_semantics(F, vm, ["MkList", "MkDict"])
    nl = nm = 0
    for p in db["roots"].get("parse_primary", []):
        n = len(p["parses"])
        if p["kind"] == "code" and re.search(r"MkList\(\d+\)$", p["text"]) and all(it["k"] == "code" for it in p["items"][:-1]):
            v = tplrules.sym_value(p["items"], sem, eff)
            want = "CelValue::list_of([%s])" % ", ".join("c%d" % i for i in range(n))
            nl += 1
            if v == want:
                chk.ok("R06.1", "vm|" + p["text"][:60], v)
            else:
                chk.bad("R06.1", "vm|" + p["text"][:60], "the VM builds %s from the code of a %d-element list literal, expected %s" % (v, n, want), "rscel/src/interp/interp.rs")
        elif p["kind"] == "const" and p["fold"].startswith("CelValue::list_of("):
            want = "CelValue::list_of([%s])" % ", ".join("const:%d" % i for i in range(n))
            if p["fold"] == want:
                chk.ok("R06.1", "fold|%d elements" % n, want)
            else:
                chk.bad("R06.1", "fold|%d elements" % n, "the folder builds %s, expected %s" % (p["fold"], want), "rscel/src/compiler/compiler.rs")
        if p["kind"] == "code" and re.search(r"MkDict\(\d+\)$", p["text"]) and all(it["k"] == "code" for it in p["items"][:-1]):
            v = tplrules.sym_value(p["items"], sem, eff)
            want = "CelValue::map_of([%s])" % ", ".join("(c%d, c%d)" % (2 * i, 2 * i + 1) for i in range(n // 2))
            nm += 1
            if v == want:
                chk.ok("R06.2", "vm|" + p["text"][:60], v)
            else:
                chk.bad("R06.2", "vm|" + p["text"][:60], "the VM builds %s from the code of a %d-entry map literal; entries must arrive at map_of as (key, value) in source order: %s" % (v, n // 2, want), "rscel/src/interp/interp.rs")
        elif p["kind"] == "const" and p["fold"].startswith("CelValue::map_of("):
            want = "CelValue::map_of([%s])" % ", ".join("(const:%d, const:%d)" % (2 * i, 2 * i + 1) for i in range(n // 2))
            if p["fold"] == want:
                chk.ok("R06.2", "fold|%d entries" % (n // 2), want)
            else:
                chk.bad("R06.2", "fold|%d entries" % (n // 2), "the folder builds %s, expected %s (key, value) pairs in source order" % (p["fold"], want), "rscel/src/compiler/compiler.rs")
    chk.floor("R06.1", "list templates", nl, 3)
    chk.floor("R06.2", "map templates", nm, 2)
    # map_of: in-order, replacing insert
    mb = F.body(CV + "::map_of")
    mq = mirq.BodyQ(mb)
    ex = mirq.call_exprs(mq, drop=None)
    ins = [e for e in ex if e.startswith("HashMap::insert(")]
    nxt = [e for e in ex if e.startswith("Iterator::next(")]
    bad_order = mq.call_sites(r"Iterator>::rev$|::reverse$|::sort|HashMap::<K, V, S>::(entry|try_insert|contains_key)$")
    if len(ins) == 1 and nxt == ["Iterator::next(p1)"] and not bad_order and ins[0].endswith("Iterator::next(p1).Some.0.0.String.0, Iterator::next(p1).Some.0.1)"):
        chk.ok("R06.2", "map_of|in-order replacing insert", ins[0][:160])
    else:
        chk.bad("R06.2", "map_of|in-order replacing insert", "map_of must insert the entries in the given order with HashMap::insert (a later entry replaces an earlier one): %s %s" % (ins, [p for _, _, p in bad_order]), mb.file)

    # ---------------- R06.3 index
    rows = paths_of(F, CV + "::index")
    seen = {"uint": 0, "int+": 0, "int-": 0}
    for r in rows:
        a, b = r["var"].get("a"), r["var"].get("b")
        ret = r["ret"]
        conds = dict((norm_usize(k), v) for k, v in r["eq"])
        text = " ".join(k for k, _ in r["eq"]) + " " + ret
        if re.search(r"as i64\(b\.UInt|as isize\(b\.UInt|as i32|as u32", text):
            chk.bad("R06.3", "cast|" + ret[:60], "a uint index is converted with a sign- or width-changing cast on this path (%s): indices at or above 2^63 would wrap into valid positions" % text[:200], "rscel/src/types/cel_value.rs")
            continue
        m = re.match(r"^Index::index\(a\.List\.0, (.*)\)$", ret)
        if a == "List" and m:
            E = norm_usize(m.group(1))
            guard = conds.get("Ge(%s, Vec::len(a.List.0))" % E)
            if guard is None:
                # the same test written the other way round (`i < len`, e.g. through slice::get): in range exactly when it is true
                lt_ = conds.get("Lt(%s, Vec::len(a.List.0))" % E)
                gt_ = conds.get("Gt(Vec::len(a.List.0), %s)" % E)
                le_ = conds.get("Le(Vec::len(a.List.0), %s)" % E)
                guard = 0 if (lt_ == 1 or gt_ == 1 or le_ == 0) else (1 if (lt_ == 0 or gt_ == 0 or le_ == 1) else None)
            kind = None
            if E == "as usize(b.UInt.0)" and b == "UInt":
                kind = "uint"
                sign_ok = True
            elif E == "as usize(b.Int.0)" and b == "Int":
                kind = "int+"
                sign_ok = conds.get("Lt(b.Int.0, 0)") == 0
            else:
                mm = re.match(r"^as usize\((Add\(TryInto::try_into<T><-U\(Vec::len\(a\.List\.0\)\)\.Ok\.0, as isize\(b\.Int\.0\)\))\)$", E)
                if mm and b == "Int":
                    kind = "int-"
                    sign_ok = conds.get("Lt(%s, 0)" % mm.group(1)) == 0 and conds.get("Lt(b.Int.0, 0)") == 1
                else:
                    sign_ok = False
            if kind and guard == 0 and sign_ok:
                seen[kind] += 1
                chk.ok("R06.3", "elem|" + kind, {"index": E, "guard": "not (index >= len)"})
            else:
                chk.bad("R06.3", "elem|" + E[:80], "list element list[%s] is returned without the matching bounds / sign test on its path (guard on the same expression: %s; conditions: %s)" % (E, guard, sorted(conds.items())[:6]), "rscel/src/types/cel_value.rs")
        elif a == "List" and r["var"].get("b") not in ("UInt", "Int") and "is_err" not in ret:
            if ret.startswith("CelValue::from_err("):
                chk.ok("R06.3", "list|non-integer index is an error")
            elif "Index::index" in ret:
                chk.bad("R06.3", "list|non-integer index", "a non-integer index reaches an element: %s" % ret[:120], "rscel/src/types/cel_value.rs")
        elif a == "Map":
            g = [v for k, v in r["var"].items() if k.startswith("HashMap::get(a.Map.0, b.String.0)")]
            if b == "String" and g == ["Some"]:
                if ret == "HashMap::get(a.Map.0, b.String.0).Some.0":
                    chk.ok("R06.3", "map|present key -> its value")
                else:
                    chk.bad("R06.3", "map|present key", "m[k] with k present returns %s" % ret[:100], "rscel/src/types/cel_value.rs")
            elif b == "String" and g == ["None"]:
                if ret.startswith("CelValue::from_err(CelError::attribute("):
                    chk.ok("R06.3", "map|absent key -> Attribute error")
                else:
                    chk.bad("R06.3", "map|absent key", "m[k] with k absent must be the absent-field (Attribute) error, found %s" % ret[:100], "rscel/src/types/cel_value.rs")
            elif "b" in r["not"] and "String" in r["not"]["b"]:
                if ret.startswith("CelValue::from_err("):
                    chk.ok("R06.3", "map|non-string key is an error")
                else:
                    chk.bad("R06.3", "map|non-string key", "m[k] with a non-string key returns %s" % ret[:100], "rscel/src/types/cel_value.rs")
    for kind, n in seen.items():
        if n == 0:
            chk.bad("R06.3", "coverage|" + kind, "no path of CelValue::index returns an element for a %s index (l[i] for 0 <= i < size, and size+i for -size <= i < 0)" % kind, "rscel/src/types/cel_value.rs")
        else:
            chk.ok("R06.3", "coverage|" + kind)

    # ---------------- R06.4 in
    rows = paths_of(F, CV + "::in_")
    got = set()
    for r in rows:
        a, b = r["var"].get("a"), r["var"].get("b")
        ret = r["ret"]
        if ret in ("a", "b"):
            continue
        if b == "String" and a == "String" and "a" not in r["not"]:
            got.add(("string", ret))
        elif b == "Map" and a == "String" and "a" not in r["not"]:
            got.add(("map", ret))
        elif b == "List":
            continue          # decided below on a concrete two-element list (the same table whether written as a loop or as iter().any())
        elif ret.startswith("CelValue::from_err("):
            got.add(("error",))
        else:
            got.add(("?", ret[:80]))
    want = {("string", "CelValue::from_bool(str::contains(b.String.0, a.String.0))"), ("map", "CelValue::from_bool(HashMap::contains_key(b.Map.0, a.String.0))"),
            ("error",)}
    # list membership on [e0, e1]: e0 is compared first, a hit answers true at once, no hit answers false; the comparison is == of needle and element
    class _InPolicy(semtables.LogicPolicy):
        def limit_for(self, body, blk):
            return 6
    itl = symex.Interp(F, _InPolicy())
    lst2 = symex.adt(CV, "List", (("seq", (symex.U("e0", CV), symex.U("e1", CV))),))
    lrows = set()
    for st_, r_ in itl.run(F.body(CV + "::in_"), [symex.U("a", CV), lst2]):
        rr_ = symex.render(r_)
        if rr_ in ("a",) or rr_.startswith("CelValue::List("):
            continue          # a failed operand is passed on
        preds_ = []
        for c in st_.cond:
            if c[0] in ("eq", "ne") and re.search(r"PartialEq(?: for \w+)?::eq\(", str(c[1])):
                m_ = re.match(r"^PartialEq(?: for \w+)?::eq\(\*?(\w+), \*?(\w+)\)$", str(c[1]))
                pair_ = tuple(sorted(m_.groups())) if m_ else (str(c[1]),)
                preds_.append((pair_, "T" if c[0] == "ne" else "F"))
        m_ = re.match(r"^(?:Into::into<T><-U|CelValue::from_bool|From::from<CelValue><-bool)\((0|1)\)$", rr_)
        val_ = int(m_.group(1)) if m_ else ("true" if rr_ == "CelValue::true_()" else "false" if rr_ == "CelValue::false_()" else rr_[:60])
        val_ = 1 if val_ == "true" else 0 if val_ == "false" else val_
        lrows.add((tuple(preds_), val_))
    want_l = {(((("a", "e0"), "T"),), 1), (((("a", "e0"), "F"), (("a", "e1"), "T")), 1), (((("a", "e0"), "F"), (("a", "e1"), "F")), 0)}
    if lrows == want_l:
        chk.ok("R06.4", "in|list membership on two elements", sorted(map(str, lrows)))
    else:
        chk.bad("R06.4", "in|list membership on two elements", "`x in [e0, e1]` must compare x with e0, then with e1, answer true at the first hit and false without one; found %s" % sorted(map(str, lrows)), "rscel/src/types/cel_value.rs")
    if got == want:
        chk.ok("R06.4", "in|table", sorted(map(str, got)))
    else:
        chk.bad("R06.4", "in|table", "`in` behaves as %s; expected list membership, map key presence (contains_key(map, needle)), substring test with the RIGHT operand as haystack, error otherwise: %s" % (sorted(map(str, got - want)), sorted(map(str, want - got))), "rscel/src/types/cel_value.rs")

    # ---------------- R06.5 concat
    rows = paths_of(F, "<" + CV + " as std::ops::Add>::add")
    tp0, tp1 = "CelValue::type_prop(a, b).0", "CelValue::type_prop(a, b).1"
    WRAP_ = r"(?:CelValue::\w+|From::from<[^()]*>|Into::into<T><-U)"
    tp0r, tp1r = re.escape(tp0), re.escape(tp1)
    wantc = {"String": r"^%s\(\[\*%s\.String\.0, \*?%s\.String\.0\]\)$" % (WRAP_, tp0r, tp1r),
             "Bytes": r"^%s\((?:CelBytes::extend!\(%s\.Bytes\.0, (?:CelBytes::into_vec\()?%s\.Bytes\.0\)?\)|\[\*%s\.Bytes\.0(?:\.0)?, \*?%s\.Bytes\.0(?:\.0)?\])\)$" % (WRAP_, tp0r, tp1r, tp0r, tp1r),
             "List": r"^%s\(\[\*%s\.List\.0, \*%s\.List\.0\]\)$" % (WRAP_, tp0r, tp1r)}
    for ty, w in wantc.items():
        hits = [r["ret"] for r in rows if r["var"].get(tp0) == ty and r["var"].get(tp1) == ty]
        if len(hits) == 1 and re.match(w, hits[0]):
            chk.ok("R06.5", "concat|" + ty, hits[0])
        else:
            chk.bad("R06.5", "concat|" + ty, "%s + %s must be a value holding the left operand's content followed by the right operand's, found %s" % (ty, ty, hits), "rscel/src/types/cel_value.rs")
    # type_prop leaves non-numeric pairs unchanged (so .0 / .1 are the operands in order)
    tb = F.body(CV + "::type_prop")
    pol = semtables.LogicPolicy()
    it = symex.Interp(F, pol)
    outs = it.run(tb, [symex.U("a", CV), symex.U("b", CV)])
    for ty in ("String", "Bytes", "List"):
        rs = set(symex.render(r) for st, r in outs if ("variant", "CelValue", ty, "a") in [tuple(c) for c in st.cond] or
                 (any(c[0] == "variant-not" and c[3] == "a" for c in st.cond) and not any(c[0] == "variant" and c[3] == "a" for c in st.cond)))
        if rs and all(re.match(r"^\(a|^\(CelValue::\w+\{\?a\}", x) or x.startswith("(a, b)") for x in rs):
            chk.ok("R06.5", "type_prop identity|" + ty)
        else:
            chk.bad("R06.5", "type_prop identity|" + ty, "type_prop must leave a %s operand pair unchanged and in order, returns %s" % (ty, sorted(rs)[:3]), tb.file)

    # ---------------- R06.6 size
    wants = {"size_su": ("String::len(p1)", None), "size_zsu": ("String::len(p1)", None), "size_pu": ("CelBytes::len(p1)", None), "size_zpu": ("CelBytes::len(p1)", None),
             "size_vu": ("Vec::len(p1)", None), "size_zvu": ("Vec::len(p1)", None)}
    for nm_, (w, _) in wants.items():
        b = F.body("rscel::context::default_funcs::size::methods::" + nm_)
        ex = mirq.call_exprs(mirq.BodyQ(b), drop=None)
        if ex == [w]:
            chk.ok("R06.6", "size|" + nm_, w)
        else:
            chk.bad("R06.6", "size|" + nm_, "size overload %s must return the length of its value (%s), calls %s" % (nm_, w, ex), b.file)
    cb = F.body("rscel::types::cel_bytes::CelBytes::len")
    ex = mirq.call_exprs(mirq.BodyQ(cb), drop=None)
    if ex == ["Vec::len(p1.0)"]:
        chk.ok("R06.6", "CelBytes::len", ex[0])
    else:
        chk.bad("R06.6", "CelBytes::len", "CelBytes::len must be the byte vector's length: %s" % ex, cb.file)

    # ---------------- R06.7 (also C12 R12.2)
    b = vm.b
    q = vm.q
    acc = vm.region("Access")
    mg = [s for s in q.call_sites(r"HashMap::<K, V, S>::get$") if s[0] in acc]
    cb_ = [s for s in q.call_sites(r"callable_by_name$") if s[0] in acc]
    okf = False
    if len(mg) == 1:
        ve = q.variant_edges(mg[0][0])
        if ve:
            after_hit = q.reach(ve["Some"], blocked=vm.dom)
            okf = not any(s[0] in after_hit for s in cb_) and any(s[0] in q.reach(ve["None"], blocked=vm.dom) for s in cb_)
            # and nothing consults the method table before the map look-up
            before = [s for s in cb_ if b.dominates(s[0], mg[0][0])]
            okf = okf and not before
    if okf:
        chk.ok("R06.7", "Access|field before method")
    else:
        chk.bad("R06.7", "Access|field before method", "m.k must return the value stored under k when it exists; the method look-up may only run when the key is absent", b.file)

    chk.analysed = {"index_paths": len(paths_of(F, CV + "::index")), "list_templates": nl, "map_templates": nm}
    return chk.finish(
        "Decision tables of CelValue::index / in_ / Add (container arms) obtained by symbolic execution of their MIR (every path with its branch conditions and result "
        "expression); literal layouts from the emission templates, evaluated with the VM's extracted MKLIST / MKDICT semantics and compared with the folder's terms.",
        ["rustc MIR", "symex summaries", "std Vec / HashMap / str contracts"], ["default features (neg_index, type_prop)", "lists / maps unrolled to three elements / two entries"],
        technique="symbolic execution of the value layer into decision tables + template evaluation with extracted VM semantics")
