"""C02 precedence, associativity and grouping - the recursive-descent structure itself.

The three tables below ARE the grammar the parser implements; they are extracted from the templates that symbolic execution of the
parse functions' MIR yields (every builder path, sub-parse calls and token matches recorded on the path):
  R02.1 level chain: which (tighter) level each operand of each level is parsed by - first operand and every right operand; ternary:
        condition and true branch from the || level, false branch from the expression level (right nesting); parenthesised, index,
        argument, element, key and value operands from the expression level
  R02.2 token table: the operator tokens each level's loop consumes; no operator token is consumed at two levels
  R02.3 operator triple: for every operator the token consumed, the operator recorded in the syntax tree, the opcode emitted and the
        function the folder applies denote the same operator
  R02.4 left grouping: the new tree node is Binary{lhs: previous tree, rhs: new operand} and the code is previous ++ new ++ [op]
  R02.5 operand order: the VM applies each binary opcode to (second pop, first pop) = (left, right)
  R02.6 prefix runs: every consumed `!` / `-` emits exactly one NOT / NEG after the operand's code; the run and the operand both
        appear in the unary node
Not decided: that evaluation is invariant under re-parenthesising in general (follows for the operators from R02 + C09)."""
import re, json
import lib, tplrules, vmtable, ctemplates

CHAIN = {
    "parse_conditional_or": {"parse_conditional_and"},
    "parse_conditional_and": {"parse_relation"},
    "parse_relation": {"parse_addition"},
    "parse_addition": {"parse_multiplication"},
    "parse_multiplication": {"parse_unary"},
}
TOKENS = {
    "parse_conditional_or": {"OrOr"}, "parse_conditional_and": {"AndAnd"},
    "parse_relation": {"LessThan", "LessEqual", "EqualEqual", "NotEqual", "GreaterEqual", "GreaterThan", "In"},
    "parse_addition": {"Add", "Minus"}, "parse_multiplication": {"Multiply", "Divide", "Mod"},
}
# token -> (AST operator variant, opcode, fold function)
TRIPLE = {
    "parse_relation": {"LessThan": ("Relop::Lt", "Lt", "CelValue::lt"), "LessEqual": ("Relop::Le", "Le", "CelValue::le"), "EqualEqual": ("Relop::Eq", "Eq", "CelValueDyn::eq"),
                       "NotEqual": ("Relop::Ne", "Ne", "CelValue::neq"), "GreaterEqual": ("Relop::Ge", "Ge", "CelValue::ge"), "GreaterThan": ("Relop::Gt", "Gt", "CelValue::gt"),
                       "In": ("Relop::In", "In", "CelValue::in_")},
    "parse_addition": {"Add": ("AddOp::Add", "Add", "Add::add"), "Minus": ("AddOp::Sub", "Sub", "Sub::sub")},
    "parse_multiplication": {"Multiply": ("MultOp::Mult", "Mul", "Mul::mul"), "Divide": ("MultOp::Div", "Div", "Div::div"), "Mod": ("MultOp::Mod", "Mod", "Rem::rem")},
    "parse_conditional_or": {"OrOr": (None, "Or", None)}, "parse_conditional_and": {"AndAnd": (None, "And", None)},
}


def seq_of(items):
    out = []
    for it in items or []:
        k = it["k"]
        if k == "code":
            out.append(("c", it["child"]))
        elif k == "op":
            out.append(("o", it["name"]))
        else:
            out.append((k, it.get("label", it.get("text", ""))))
    return out


def loop_tokens(p):
    """operator tokens consumed on the path: Token variants matched on a peeked token and followed by next()"""
    return [c[2] for c in p["cond"] if c[0] == "variant" and c[1] == "Token" and "peek" in str(c[3])]


def ast_ops(a, out=None):
    """operator enum variants inside an AST value (Relop / AddOp / MultOp), outermost first"""
    out = [] if out is None else out
    if isinstance(a, dict):
        if a.get("adt") in ("Relop", "AddOp", "MultOp"):
            out.append("%s::%s" % (a["adt"], a["variant"]))
        for k in ("fields", "tup", "seq", "args"):
            for x in a.get(k) or []:
                ast_ops(x, out)
        if "box" in a:
            ast_ops(a["box"], out)
    return out


def ast_children(a, out=None):
    """child syntax trees (ast:k) in left-to-right order of appearance"""
    out = [] if out is None else out
    if isinstance(a, dict):
        if "u" in a:
            m = re.match(r"^ast:(\d+)$", a["u"])
            if m:
                out.append(int(m.group(1)))
        for k in ("fields", "tup", "seq", "args"):
            for x in a.get(k) or []:
                ast_children(x, out)
        for k in ("box", "pj"):
            if k in a:
                ast_children(a[k], out)
    return out


def node_of(a):
    """the grammar node stored in an AstNode value"""
    if isinstance(a, dict) and a.get("adt") == "AstNode" and a.get("fields"):
        return a["fields"][1]
    return None


def run(chk, tier):
    F = lib.get_facts()
    chk.rule("R02.1", "each operand of each level is parsed by the next tighter level; ?: nests to the right through the expression level; bracketed operands restart at the expression level")
    chk.rule("R02.2", "operator tokens consumed per level = the grammar's precedence classes; none is consumed at two levels")
    chk.rule("R02.3", "token, syntax-tree operator, opcode and folded function denote the same operator")
    chk.rule("R02.4", "binary loops build Binary{lhs: previous, rhs: new} and previous ++ new ++ [op] (left grouping)")
    chk.rule("R02.5", "binary opcodes apply to (left, right) = (second pop, first pop)")
    chk.rule("R02.6", "each prefix operator consumed emits exactly one NOT / NEG after the operand")
    db = tplrules.load(F)
    for m, e in db["errors"].items():
        chk.bad("R02.1", "extract|" + m, "template extraction failed: " + e[:200], "rscel/src/compiler/compiler.rs")
    vm, eff = tplrules.vm_effects(F)
    sem = tplrules.vm_semantics(F, vm, [v[1] for t in TRIPLE.values() for v in t.values()] + ["Not", "Neg", "Index"])
    seen_tokens = {}
    # ---------------- binary levels
    for m in CHAIN:
        paths = db["roots"].get(m, [])
        callees = set(c for p in paths for _, c in p["parses"])
        if callees == CHAIN[m]:
            chk.ok("R02.1", m, sorted(callees))
        else:
            chk.bad("R02.1", m, "%s parses its operands with %s; every operand (first and right) must come from %s - otherwise operators of this level bind tighter or looser than the grammar says" % (m, sorted(callees), sorted(CHAIN[m])), "rscel/src/compiler/compiler.rs (%s)" % m)
        toks = set(t for p in paths for t in loop_tokens(p))
        seen_tokens[m] = toks
        if toks == TOKENS[m]:
            chk.ok("R02.2", m, sorted(toks))
        else:
            chk.bad("R02.2", m, "%s consumes the operator tokens %s, the grammar's class for this level is %s" % (m, sorted(toks), sorted(TOKENS[m])), "rscel/src/compiler/compiler.rs (%s)" % m)
        # triples / grouping on the one- and two-operator paths
        for p in paths:
            toks_p = loop_tokens(p)
            if not toks_p or len(p["parses"]) != len(toks_p) + 1:
                continue
            n = len(toks_p)
            key = "%s|%s" % (m, ",".join(toks_p))
            want = [TRIPLE[m].get(t) for t in toks_p]
            if any(w is None for w in want):
                continue    # reported under R02.2
            # AST: operators innermost-last; left grouping means ops appear outermost = last token
            node = node_of(p["ast"])
            ops = ast_ops(p["ast"])
            kids = ast_children(p["ast"])
            if want[0][0] is not None:
                outer = None
                if isinstance(node, dict) and node.get("variant") == "Binary" and node.get("fields") and len(node["fields"]) == 3:
                    o = node["fields"][1]
                    outer = "%s::%s" % (o.get("adt"), o.get("variant")) if isinstance(o, dict) else None
                if sorted(ops) != sorted(w[0] for w in want) or outer != want[-1][0]:
                    chk.bad("R02.3", key + "|tree", "tokens %s are recorded in the syntax tree as %s with %s outermost; expected %s with the LAST operator outermost" % (toks_p, ops, outer, [w[0] for w in want]), "rscel/src/compiler/compiler.rs (%s)" % m)
                    continue
            # left grouping: children appear in order 0..n in the tree, the outermost node's rhs is the LAST operand and its lhs holds all earlier ones
            grouped = False
            if isinstance(node, dict) and node.get("variant") == "Binary" and node.get("fields"):
                fl = node["fields"]
                lhs, rhs = fl[0], fl[-1]
                grouped = ast_children(rhs) == [n] and [k for k in ast_children(lhs) if True] and sorted(set(ast_children(lhs))) == list(range(n))
            if not grouped:
                chk.bad("R02.4", key + "|tree", "operators of equal precedence must group to the left: the outermost node must be Binary{lhs: <all earlier operands>, rhs: <last operand>}; tree children %s" % kids, "rscel/src/compiler/compiler.rs (%s)" % m)
                continue
            if p["kind"] == "code" and all(it["k"] in ("code", "op") and not (it["k"] == "op" and it["name"] == "Push") for it in p["items"]) and m not in ("parse_conditional_or", "parse_conditional_and"):
                seq = seq_of(p["items"])
                exp = [("c", 0)]
                for i, w in enumerate(want):
                    exp += [("c", i + 1), ("o", w[1])]
                if seq != exp:
                    chk.bad("R02.3", key + "|code", "tokens %s emit %s, expected operands in source order each followed by its own opcode: %s" % (toks_p, p["text"][:120], exp), "rscel/src/compiler/compiler.rs (%s)" % m)
                    continue
                v = tplrules.sym_value(p["items"], sem, eff)
                expv = "c0"
                for i, w in enumerate(want):
                    expv = "%s(%s, c%d)" % (w[2], expv, i + 1)
                if v != expv:
                    chk.bad("R02.5", key + "|vm", "the VM evaluates the emitted code to %s; left-to-right application demands %s" % (v, expv), "rscel/src/interp/interp.rs")
                    continue
                chk.ok("R02.3", key, {"tree": ops, "code": p["text"][:80], "value": v[:100]})
            elif p["kind"] == "const" and want[0][2] is not None:
                expv = "const:0"
                for i, w in enumerate(want):
                    expv = "%s(%s, const:%d)" % (w[2], expv, i + 1)
                if p["fold"] != expv:
                    chk.bad("R02.3", key + "|fold", "constant operands are folded to %s, expected %s" % (p["fold"][:120], expv), "rscel/src/compiler/compiler.rs (%s)" % m)
                else:
                    chk.ok("R02.3", key + "|fold", expv[:100])
            elif p["kind"] == "code" and m in ("parse_conditional_or", "parse_conditional_and"):
                opc = [it["name"] for it in p["items"] if it["k"] == "op" and it["name"] in ("Or", "And")]
                kids_c = [it["child"] for it in p["items"] if it["k"] == "code"]
                if opc == [w[1] for w in want] and kids_c == list(range(n + 1)):
                    chk.ok("R02.3", key, p["text"][:100])
                else:
                    chk.bad("R02.3", key + "|code", "tokens %s emit %s" % (toks_p, p["text"][:140]), "rscel/src/compiler/compiler.rs (%s)" % m)
    # no token at two levels
    alltoks = {}
    for m, ts in seen_tokens.items():
        for t in ts:
            alltoks.setdefault(t, []).append(m)
    dup = {t: ms for t, ms in alltoks.items() if len(ms) > 1}
    if dup:
        chk.bad("R02.2", "token at two levels", "operator tokens consumed by more than one binary level: %s" % dup, "rscel/src/compiler/compiler.rs")
    else:
        chk.ok("R02.2", "levels are disjoint")

    # ---------------- ternary, expression, brackets
    def callees_by_pos(m):
        out = set()
        for p in db["roots"].get(m, []):
            out.add(tuple(c for _, c in p["parses"]))
        return out
    te = callees_by_pos("parse_turnary_expression")
    if te == {("<param 2>", "parse_conditional_or", "parse_expression")}:
        chk.ok("R02.1", "ternary", "condition and true branch at the || level, false branch at the expression level (right nesting)")
    else:
        chk.bad("R02.1", "ternary", "`c ? x : y` must parse x with the || level and y with the full expression level (so that ?: nests to the right in its else branch); found %s" % sorted(te), "rscel/src/compiler/compiler.rs (parse_turnary_expression)")
    ei = callees_by_pos("parse_expression_inner")
    if ei == {("parse_match_expression",), ("parse_conditional_or",), ("parse_conditional_or", "parse_turnary_expression")}:
        chk.ok("R02.1", "expression", "?: is the loosest operator: the condition is a full || expression")
    else:
        chk.bad("R02.1", "expression", "parse_expression_inner dispatches as %s" % sorted(ei), "rscel/src/compiler/compiler.rs (parse_expression_inner)")
    for p in db["roots"].get("parse_turnary_expression", []):
        if p["kind"] == "code":
            node = node_of(p["ast"])
            okt = isinstance(node, dict) and node.get("variant") == "Ternary" and [ast_children(f) for f in node["fields"]] == [[0], [1], [2]]
            if okt:
                chk.ok("R02.4", "ternary tree", "Ternary{condition: operand 0, true: operand 1, false: operand 2}")
            else:
                chk.bad("R02.4", "ternary tree", "the Ternary node must hold condition, true branch and false branch in that order: %s" % json.dumps(node)[:200], "rscel/src/compiler/compiler.rs (parse_turnary_expression)")
    pm = set(c for p in db["roots"].get("parse_member", []) for _, c in p["parses"])
    pp = set(c for p in db["roots"].get("parse_primary", []) for _, c in p["parses"])
    pu = set(tuple(c for _, c in p["parses"]) for p in db["roots"].get("parse_unary", []))
    if pm == {"parse_primary", "parse_expression"} and pp == {"parse_expression"}:
        chk.ok("R02.1", "postfix and brackets", "member chains start at a primary; index / argument / parenthesised / element / key / value operands restart at the expression level")
    else:
        chk.bad("R02.1", "postfix and brackets", "parse_member uses %s, parse_primary uses %s: bracketed operands must be full expressions and postfix chains must bind to a primary" % (sorted(pm), sorted(pp)), "rscel/src/compiler/compiler.rs")
    if pu == {("parse_member",), ("parse_not_list", "parse_member"), ("parse_neg_list", "parse_member")}:
        chk.ok("R02.1", "unary", "prefix runs apply to a member (postfix binds tighter than ! and -)")
    else:
        chk.bad("R02.1", "unary", "parse_unary dispatches as %s" % sorted(pu), "rscel/src/compiler/compiler.rs (parse_unary)")

    # ---------------- prefix runs
    for p in db["roots"].get("parse_unary", []):
        if len(p["parses"]) == 2:
            want = [("c", 1), ("c", 0)]
            seq = seq_of(p.get("items"))
            lst = p["parses"][0][1]
            if p["kind"] == "code" and seq == want:
                chk.ok("R02.6", "unary|" + lst, "operand code, then the prefix run's opcodes")
            else:
                chk.bad("R02.6", "unary|" + lst, "a prefix run must emit the operand's code followed by the run's own code (one opcode per operator); found %s" % p["text"][:120], "rscel/src/compiler/compiler.rs (parse_unary)")
            kids = ast_children(p["ast"])
            if sorted(set(kids)) != [0, 1]:
                chk.bad("R02.6", "unary tree|" + lst, "the unary node must hold the prefix run and the member: %s" % kids, "rscel/src/compiler/compiler.rs (parse_unary)")
    for m, tok, opc in (("parse_not_list", "Not", "Not"), ("parse_neg_list", "Minus", "Neg")):
        for p in db["roots"].get(m, []):
            if p["parses"]:
                seq = seq_of(p.get("items"))
                if p["kind"] == "code" and seq == [("c", 0), ("o", opc)] and [c[1] for c in p["parses"]] == [m]:
                    chk.ok("R02.6", m, "one %s per consumed operator, after the rest of the run" % opc)
                else:
                    chk.bad("R02.6", m, "each consumed prefix operator must append exactly one %s to the rest of the run: %s" % (opc, p["text"][:100]), "rscel/src/compiler/compiler.rs (%s)" % m)
            else:
                if p["kind"] == "code" and not p["items"]:
                    chk.ok("R02.6", m + "|empty run emits nothing")
                else:
                    chk.bad("R02.6", m + "|empty run", "an empty prefix run must emit no code: %s" % p["text"][:80], "rscel/src/compiler/compiler.rs")
    # VM unary semantics
    for opc, fn in (("Not", "Not::not(pop1)"), ("Neg", "Neg::neg(pop1)")):
        if sem.get(opc) == [(1, fn)]:
            chk.ok("R02.5", "vm|" + opc, fn)
        else:
            chk.bad("R02.5", "vm|" + opc, "VM arm %s computes %s" % (opc, sem.get(opc)), "rscel/src/interp/interp.rs")
    # ---------------- R02.7 the code of a grouping unit is closed
    chk.rule("R02.7", "grouping is realised in the code: every jump a precedence level emits lands on a label the same level binds, after the jump - the code of `b && c` inside "
                      "`a || b && c || d` cannot skip operands of the enclosing `||` chain, so the unparenthesised chain evaluates like its parenthesised grouping")
    n27 = 0
    for m_ in ("parse_conditional_or", "parse_conditional_and", "parse_turnary_expression", "parse_match_expression"):
        seen_ = {}
        for p_ in db["roots"].get(m_, []):
            if p_["kind"] == "code":
                seen_.setdefault(p_["text"], p_)
        for text_, p_ in sorted(seen_.items()):
            n27 += 1
            bound_ = {}
            for k_, it_ in enumerate(p_["items"]):
                if it_["k"] == "label":
                    bound_.setdefault(it_["label"], k_)
            probs_ = []
            for k_, it_ in enumerate(p_["items"]):
                if it_["k"] in ("jmp", "jmpcond"):
                    l_ = it_.get("label")
                    if not isinstance(l_, int) or l_ not in bound_:
                        probs_.append("jump %d targets %s, which this level does not bind" % (k_, "L%s" % l_))
                    elif bound_[l_] < k_:
                        probs_.append("jump %d goes backwards to L%s" % (k_, l_))
            if probs_:
                chk.bad("R02.7", "%s|%s" % (m_, text_[:80]), "%s emits code that leaves its own extent: %s - a failed operand then skips operands of the enclosing chain "
                                                            "(`a || b && c || d` evaluates like `a || b && (c || d)`)   [template: %s]" % (m_, "; ".join(probs_[:2]), text_[:200]), "rscel/src/compiler/compiler.rs (%s)" % m_)
            else:
                chk.ok("R02.7", "%s|%s" % (m_, text_[:80]))
    chk.floor("R02.7", "templates of the jumping levels", n27, 8)
    chk.analysed = {"levels": sorted(CHAIN), "paths": sum(len(v) for v in db["roots"].values())}
    return chk.finish(
        "The grammar the parser implements, read off the templates that symbolic execution of each parse function yields: sub-parse callee per operand position, operator "
        "tokens consumed per level, operator recorded in the tree / opcode emitted / function folded per token, shape of the tree node and of the code per loop iteration "
        "(one and two operators), and the VM's operand order extracted from its arms.",
        ["rustc MIR", "symex summaries", "two loop iterations represent the loop (the loop-carried node is an arbitrary node of the same level)"], ["default features"],
        technique="symbolic execution of the parse functions: level-chain, token and operator-triple tables + tree / code shape per iteration")
