"""C07 comprehension macros - the shared skeleton, early-exit polarity, lexical loop variable, visiting order.

Decides (necessary conditions; NOT that each macro equals its defining fold on all lists):
  R07.1 skeleton per loop function: documented arity constants; loop variable name(s) come from eval_ident(bytecode[k]) which
        evaluates on an EMPTY interpreter without resolving (so an outer binding of the same name cannot capture the name);
        per element bind_param(name, element) on the private copy from setup_context, then Interpreter::new_child(ctx, copies),
        then run_raw(bytecode[k], resolve=true) with the documented k; all three inside the loop and in that dominance order;
        a body failure returns at once (the Err edge cannot reach the next element)
  R07.2 polarity: all -> false on the first falsy body, exists -> true on the first truthy body, exists_one -> false as soon
        as the count exceeds 1 and count == 1 at the end, filter / map push only on the truthy edge, map without predicate
        pushes every result; reduce threads the accumulator (seed from the caller's interpreter, then each step result)
  R07.3 private copies: bind_param's receiver is always the BindContext returned by setup_context, never the caller's
  R07.4 visiting order: elements come from the list's own forward iterator (no rev / sort / dedup); map ranges iterate the
        sorted key vector
Not decided: equality with the defining folds; bodies' values."""
import re
import lib, mirq

PFX = "rscel::context::default_macros::"
# loop function -> (element source kind, body index k(s), names source)
LOOPS = {
    "all::all_impl": {"kind": "list", "arity": [("Ne", 2)], "body": ["p3[1]"], "names": ["p3[0]"], "bc": "p3"},
    "exists::exists_impl": {"kind": "list", "arity": [("Ne", 2)], "body": ["p3[1]"], "names": ["p3[0]"], "bc": "p3"},
    "exists_one::exists_one_impl": {"kind": "list", "arity": [("Ne", 2)], "body": ["p3[1]"], "names": ["p3[0]"], "bc": "p3"},
    "filter::filter_list": {"kind": "list", "body": ["p4"], "names": None},
    "filter::filter_map": {"kind": "keys", "body": ["p4"], "names": None},
    "map::map_list": {"kind": "list", "body": ["p4[1]", "p4[1]", "p4[2]"], "names": None},
    "map::map_map": {"kind": "keys", "body": ["p4[1]", "p4[1]", "p4[2]"], "names": None},
    "reduce::reduce_impl": {"kind": "list", "arity": [("Ne", 4)], "body": ["p3[2]"], "names": ["p3[0]", "p3[1]"], "bc": "p3"},
}
ENTRY = {
    "filter::filter_impl": {"arity": [("Ne", 2)], "names": ["p3[0]"], "delegates": {"filter_list": "p3[1]", "filter_map": "p3[1]"}},
    "map::map_impl": {"arity": [("Eq", 2), ("Eq", 3)], "names": ["p3[0]"], "delegates": {"map_list": "p3", "map_map": "p3"}},
}


def bool_const_returned(q, start, loop_head):
    """constants c such that `c.into()` (bool -> CelValue) is executed on a path from `start` that does not re-enter the loop"""
    region = q.reach(start, blocked={loop_head})
    out = set()
    for i, t in q.b.calls():
        if i not in region:
            continue
        rid, p, c = lib.callee_of(t)
        if rid is None:
            continue
        if p.endswith("CelValue::true_"):
            out.add(1)
        elif p.endswith("CelValue::false_"):
            out.add(0)
        elif t["args"] and t.get("atys", [""])[0] == "bool" and t.get("dty", "").endswith("cel_value::CelValue"):
            cst = lib.op_const_int(t["args"][0])
            if cst is not None:
                out.add(cst)
    return out, region


def run(chk, tier):
    F = lib.get_facts()
    chk.rule("R07.1", "shared skeleton: arity constants, eval_ident on an empty interpreter, per element bind_param -> new_child -> run_raw(body k, resolve) in dominance order inside the loop, body failure returns at once")
    chk.rule("R07.2", "early-exit polarity and accumulation per macro (constants and edges extracted from MIR)")
    chk.rule("R07.3", "bind_param only on the private BindContext copy from setup_context")
    chk.rule("R07.4", "elements are visited in the container's forward order (lists) / sorted key order (maps)")

    # ---- eval_ident: empty interpreter, resolve = false
    ei = F.body("rscel::utils::eval_utils::eval_ident")
    qe = mirq.BodyQ(ei)
    ex = mirq.call_exprs(qe, drop=None)
    want = "Interpreter::run_raw(Interpreter::empty(), p1, 0)"
    if want in ex and ei.d["arg_count"] == 1:
        chk.ok("R07.1", "eval_ident|empty interpreter, no resolve", want)
    else:
        chk.bad("R07.1", "eval_ident|empty interpreter, no resolve",
                "the loop-variable name must be read off the bytecode by an interpreter WITHOUT bindings and without resolving "
                "(otherwise an outer variable of the same name captures it): expected %s, found %s" % (want, [e for e in ex if "run_raw" in e]), ei.file)

    # ---------------- R07.5 the macros ARE their defining folds on short lists (exhaustive symbolic tables)
    chk.rule("R07.5", "for lists of 0..3 elements and EVERY assignment of outcomes (truthy / falsy / failing / value) to the body evaluations, the macro visits the elements in order, "
                      "evaluates exactly the bodies the defining fold with early exit evaluates, binds the loop variable (and for reduce the previous result) as the fold does, stops "
                      "where it stops and returns what it returns - by symbolic execution of the implementation against the fold generated from the property")
    import macrotab
    nrows = 0
    exact = {}
    for mac in macrotab.TARGETS:
        for n_ in range(0, 4 if tier != "thorough" else 5):
            key = "%s|%d element%s" % (mac, n_, "" if n_ == 1 else "s")
            try:
                got, junk = macrotab.extract(F, mac, n_)
            except Exception as e_:             # symbolic execution did not finish / unknown construct: fail closed
                chk.bad("R07.5", key, "the macro implementation could not be executed symbolically: %s: %s" % (type(e_).__name__, str(e_)[:120]), "rscel/src/context/default_macros")
                continue
            want = macrotab.model(mac, n_)
            nrows += len(got)
            if got == want:
                exact.setdefault(mac, []).append(True)
                chk.ok("R07.5", key, {"behaviours": len(got)})
            else:
                extra = sorted(got - want, key=str)[:2]
                missing = sorted(want - got, key=str)[:2]
                chk.bad("R07.5", key, "%s over a list of %d: the implementation and the defining fold disagree; implementation only: %s; fold only: %s   "
                                      "(p = predicate / body, f = transform; outcomes T truthy, F falsy, E fails, V value)"
                        % (mac, n_, [macrotab.describe(r_) for r_ in extra], [macrotab.describe(r_) for r_ in missing]), "rscel/src/context/default_macros")
    chk.floor("R07.5", "behaviours compared", nrows, 120)
    # ---------------- R07.6 the map-container variants are the list variants over the sorted keys
    chk.rule("R07.6", "filter / map over a MAP run exactly the per-element logic of their list variant (same body evaluations, same stopping, same collected values), "
                      "with the element being a key taken from the SORTED list of the map's keys")
    import symex as _sx
    sib_ok = {}
    for mv, lv, nb in (("filter::filter_map", "filter::filter_list", 0), ("map::map_map", "map::map_list", 2), ("map::map_map", "map::map_list", 3)):
        rows_ = {}
        elem_ = {}
        for nm_ in (mv, lv):
            fb_ = F.body(PFX + nm_)
            itx = _sx.Interp(F, macrotab.MacroPolicy())
            blocks_ = ("seq", tuple(_sx.U("b%d" % i_) for i_ in range(nb))) if nb else _sx.U("b1")
            out_ = set()
            els = set()
            try:
                res_ = itx.run(fb_, [_sx.U("ctx"), _sx.U("m", fb_.local_ty(2)), _sx.U("name"), blocks_])
            except Exception as e_:
                chk.bad("R07.6", "%s|extract" % nm_, "symbolic execution failed: %s" % str(e_)[:100], fb_.file)
                res_ = []
            for st_, r_ in res_:
                binds = [e_[2][-1] for e_ in st_.trace if e_[0] == "call" and e_[1] == "bind_param" and e_[2]]
                els.update(binds)
                rr_ = _sx.render(_sx.deep(st_, r_))
                for el in sorted(binds, key=len, reverse=True):
                    rr_ = rr_.replace(el, "ELEM")
                conds_ = tuple(sorted([(str(c[3]), c[2]) for c in st_.cond if c[0] == "variant" and "run_raw#" in str(c[3])] +
                                      [(str(c[1]), c[0]) for c in st_.cond if c[0] in ("eq", "ne") and "is_truthy" in str(c[1])]))
                calls_ = tuple((e_[1], e_[2][1] if e_[1] == "run_raw" and len(e_[2]) > 1 else "") for e_ in st_.trace if e_[0] == "call" and e_[1] in ("run_raw", "bind_param", "new_child"))
                out_.add((conds_, calls_, re.sub(r"\*m\b", "ELEM", rr_)[:200]))
            rows_[nm_] = out_
            elem_[nm_] = els
        key_ = "%s ~ %s%s" % (mv, lv, " (%d blocks)" % nb if nb else "")
        sorted_keys = bool(elem_[mv]) and all(re.search(r"slice::sort(_unstable)?!?\(", e_) and re.search(r"HashMap::(into_keys|keys)\(m\)", e_) for e_ in elem_[mv])
        if rows_[mv] == rows_[lv] and rows_[mv] and sorted_keys:
            chk.ok("R07.6", key_, {"rows": len(rows_[mv])})
            sib_ok.setdefault(mv, []).append(True)
        else:
            chk.bad("R07.6", key_, "the map variant and the list variant differ per element, or the keys are not sorted first: map-only rows %s, list-only rows %s, element %s"
                    % (sorted(rows_[mv] - rows_[lv], key=str)[:2], sorted(rows_[lv] - rows_[mv], key=str)[:2], sorted(elem_[mv])[:1]), F.body(PFX + mv).file)
            sib_ok.setdefault(mv, []).append(False)
    # functions whose per-element behaviour is decided exactly by R07.5 / R07.6: the CFG heuristics below are then implied
    MAC2FN = {"all": "all::all_impl", "exists": "exists::exists_impl", "exists_one": "exists_one::exists_one_impl", "filter": "filter::filter_list", "map": "map::map_list",
              "map3": "map::map_list", "reduce": "reduce::reduce_impl"}
    covered = set()
    for mac_, fn_ in MAC2FN.items():
        if len(exact.get(mac_, [])) >= 4 and all(exact[mac_]):
            covered.add(fn_)
    if not (len(exact.get("map", [])) >= 4 and len(exact.get("map3", [])) >= 4):
        covered.discard("map::map_list")
    for mv in ("filter::filter_map", "map::map_map"):
        lv = mv.replace("_map", "_list")
        if sib_ok.get(mv) and all(sib_ok[mv]) and lv in covered:
            covered.add(mv)
    HEUR = ("body evaluation", "order", "body failure", "truthiness", "polarity", "collected values", "accumulator threading", "binds the element")

    def hbad(rule, key, msg, loc):
        fn_, _, what = key.partition("|")
        if fn_ in covered and what in HEUR:
            return              # decided exactly by the symbolic tables; the CFG pattern is only a second opinion
        chk.bad(rule, key, msg, loc)

    for name, spec in list(ENTRY.items()) + list(LOOPS.items()):
        b = F.body(PFX + name)
        q = mirq.BodyQ(b)
        exprs = mirq.call_exprs(q, drop=None)
        # arity
        if "arity" in spec:
            cm = sorted((op, c) for (_, op, c, aty, o) in q.const_compares(include_expansion=False) if aty == "usize" and mirq.expr_of(q, o).startswith("slice::len(p3)"))
            if cm == sorted(spec["arity"]):
                chk.ok("R07.1", name + "|arity", cm)
            else:
                chk.bad("R07.1", name + "|arity", "%s: argument-count test is %s, documented %s" % (name, cm, spec["arity"]), b.file)
        # names via eval_ident(bytecode[k])
        if spec.get("names"):
            got = sorted(e for e in exprs if e.startswith("eval_ident("))
            want = sorted("eval_ident(%s)" % n for n in spec["names"])
            if got == want:
                chk.ok("R07.1", name + "|loop variable names", got)
            else:
                chk.bad("R07.1", name + "|loop variable names", "%s: loop variable(s) must be eval_ident of %s, found %s" % (name, spec["names"], got), b.file)
        if "delegates" in spec:
            for callee, arg in spec["delegates"].items():
                hits = [e for e in exprs if e.startswith(callee + "(")]
                okd = len(hits) == 1 and re.match(r"^%s\(p1, p2\.(List|Map)\.0, eval_ident\(p3\[0\]\)\.Ok\.0, %s\)$" % (callee, re.escape(arg)), hits[0])
                if okd:
                    chk.ok("R07.1", name + "|delegates " + callee, hits[0])
                else:
                    chk.bad("R07.1", name + "|delegates " + callee, "%s must pass (ctx, range, loop variable, %s) to %s: %s" % (name, arg, callee, hits), b.file)
            continue

        # ---- loop skeleton
        nxt = q.call_sites(r"IntoIter<.*> as std::iter::Iterator>::next$")
        sc = q.call_sites(r"helpers::setup_context$")
        bp = q.call_sites(r"BindContext::<'a>::bind_param$")
        nc = q.call_sites(r"Interpreter::<'a>::new_child$")
        rr = [s for s in q.call_sites(r"Interpreter::<'a>::run_raw$")]
        if len(nxt) != 1 or len(sc) != 1 or not bp or len(nc) != 1:
            chk.bad("R07.1", name + "|skeleton", "%s: expected one element iterator, one setup_context, bind_param and one new_child (found %d, %d, %d, %d)" % (name, len(nxt), len(sc), len(bp), len(nc)), b.file)
            continue
        head = nxt[0][0]
        in_loop = lambda blk: head in q.reach(blk) and blk in q.reach(head)
        sc_expr = "setup_context(p1)"
        # R07.3 receivers and R07.1 arguments
        good = True
        for (i, t, p) in bp:
            recv = mirq.expr_of(q, t["args"][0])
            if recv != sc_expr + ".1":
                chk.bad("R07.3", name + "|bind_param receiver", "%s binds the loop variable on %s, not on the private copy %s.1: the caller's bindings / other iterations could observe it" % (name, recv, sc_expr), b.file)
                good = False
            if not in_loop(i):
                chk.bad("R07.1", name + "|bind per element", "%s: bind_param is not executed per element (outside the loop)" % name, b.file)
                good = False
        nce = mirq.expr_of(q, {"copy": nc[0][1]["dest"]}) if False else "Interpreter::new_child(%s)" % ", ".join(mirq.expr_of(q, a) for a in nc[0][1]["args"])
        if nce != "Interpreter::new_child(p1, %s.0, %s.1)" % (sc_expr, sc_expr):
            chk.bad("R07.1", name + "|child interpreter", "%s: the body must run on new_child(ctx, private context, private bindings), found %s" % (name, nce), b.file)
            good = False
        if not in_loop(nc[0][0]):
            chk.bad("R07.1", name + "|child per element", "%s: the child interpreter is not created per element" % name, b.file)
            good = False
        loop_rr = [(i, t) for (i, t, p) in rr if in_loop(i)]
        bodies = sorted(mirq.expr_of(q, t["args"][1]) for i, t in loop_rr)
        flags = set(lib.op_const_int(t["args"][2]) for i, t in loop_rr)
        recvs = set(mirq.expr_of(q, t["args"][0]) for i, t in loop_rr)
        if bodies != sorted(spec["body"]) or flags != {1} or recvs != {nce}:
            hbad("R07.1", name + "|body evaluation", "%s: per element run_raw must evaluate %s with resolve=true on the child interpreter; found bodies %s flags %s receivers %s" % (name, spec["body"], bodies, flags, recvs), b.file)
            good = False
        # dominance order: every bind_param dominates new_child dominates every in-loop run_raw
        for (i, t, p) in bp:
            if not b.dominates(i, nc[0][0]):
                hbad("R07.1", name + "|order", "%s: the element is bound after the child interpreter was created (bind_param must dominate new_child)" % name, b.file)
                good = False
        for i, t in loop_rr:
            if not b.dominates(nc[0][0], i):
                hbad("R07.1", name + "|order", "%s: a body evaluation is not dominated by new_child" % name, b.file)
                good = False
            ve = q.variant_edges(i)
            if ve is None:
                hbad("R07.1", name + "|body failure", "%s: run_raw result not matched" % name, b.file)
                good = False
            elif head in q.reach(ve["Err"]):
                hbad("R07.1", name + "|body failure", "%s: after a failing body the loop continues with the next element (a body failure must make the macro fail at once)" % name, b.file)
                good = False
        if good:
            chk.ok("R07.1", name + "|skeleton", {"bodies": bodies, "child": nce})
            chk.ok("R07.3", name + "|private copy")
        # element value bound = the iterator's element
        elem = "Iterator::next(%s).Some.0"
        src = mirq.expr_of(q, nxt[0][1]["args"][0])
        # R07.4 order
        revs = q.call_sites(r"Iterator>::rev$|::reverse$|::dedup|::retain|::swap_remove|::sort_unstable")
        if spec["kind"] == "list":
            sorts = q.call_sites(r"::sort(_by|_by_key)?$")
            if revs or sorts or not re.match(r"^p2(\.List\.0)?$", src):
                chk.bad("R07.4", name + "|order", "%s must visit the list's elements in order: iterator source %s, reordering calls %s" % (name, src, [p for _, _, p in revs + sorts]), b.file)
            else:
                chk.ok("R07.4", name + "|order", "forward iterator over " + src)
        else:
            sorts = q.call_sites(r"slice::<impl \[T\]>::sort$")
            if len(sorts) == 1 and not revs and b.dominates(sorts[0][0], head) and "into_keys" in src:
                chk.ok("R07.4", name + "|order", "sorted keys: " + src)
            else:
                chk.bad("R07.4", name + "|order", "%s must visit the map's keys in one fixed (sorted) order: source %s sorts=%d" % (name, src, len(sorts)), b.file)
        bound_vals = sorted(mirq.expr_of(q, t["args"][2]) for (i, t, p) in bp)
        bound_names = sorted(mirq.expr_of(q, t["args"][1]) for (i, t, p) in bp)

        # ---- R07.2 polarity
        tr = [(i, t) for (i, t, p) in q.call_sites(r"CelValueDyn>::is_truthy$") if in_loop(i)]
        short = name.split("::")[0]
        if short in ("all", "exists", "exists_one", "filter") or (short == "map"):
            need = 1
            if len(tr) != need:
                hbad("R07.2", name + "|truthiness", "%s: expected %d truthiness test of the body result inside the loop, found %d" % (name, need, len(tr)), b.file)
                continue
            ti, tt = tr[0]
            # the switch on the bool result
            dest = tt["dest"]["l"]
            sw = None
            cur = tt["t"]
            for _ in range(6):
                t2 = b.blocks[cur]["term"]
                if t2 and t2["k"] == "switch":
                    sw = (cur, t2)
                    break
                s = b.succs(cur)
                if len(s) != 1:
                    break
                cur = s[0]
            if sw is None:
                hbad("R07.2", name + "|truthiness", "truthiness result is not branched on", b.file)
                continue
            sblk, st = sw
            # which edge is 'truthy': the switch tests either the bool or its negation
            d = q.single_def(lib.op_local(st["discr"]))
            negated = bool(d and d[1] == "assign" and d[2]["rv"]["k"] == "unop" and d[2]["rv"]["op"] == "Not")
            false_t = [c[1] for c in st["cases"] if int(c[0]) == 0]
            f_edge = false_t[0] if false_t else st["otherwise"]
            t_edge = st["otherwise"] if false_t else [c[1] for c in st["cases"] if int(c[0]) == 1][0]
            truthy_edge, falsy_edge = (f_edge, t_edge) if negated else (t_edge, f_edge)
            tc, treg = bool_const_returned(q, truthy_edge, head)
            fc, freg = bool_const_returned(q, falsy_edge, head)
            t_cont = head in q.reach(truthy_edge)
            f_cont = head in q.reach(falsy_edge)
            if short == "all":
                okp = (not f_cont) and fc == {0} and t_cont
                msg = "all(): the first falsy body must return false at once and a truthy body must continue"
            elif short == "exists":
                okp = (not t_cont) and tc == {1} and f_cont
                msg = "exists(): the first truthy body must return true at once and a falsy body must continue"
            elif short == "exists_one":
                # truthy edge: count += 1; if count > 1 return false
                cmps = [(op, c) for (blk, op, c, aty, o) in q.const_compares(include_expansion=False) if aty in ("i32", "i64", "u32", "u64", "usize")]
                early = [(blk, op, c) for (blk, op, c, aty, o) in q.const_compares(include_expansion=False) if blk in q.reach(truthy_edge, blocked={head}) and aty in ("i32", "i64", "u32", "u64", "usize")]
                final = [(op, c) for (blk, op, c, aty, o) in q.const_compares(include_expansion=False) if blk not in q.reach(truthy_edge, blocked={head}) and not in_loop(blk) and aty in ("i32", "i64", "u32", "u64", "usize") and blk in q.reach(head)]
                okp = f_cont and t_cont and [(op, c) for _, op, c in early] == [("Gt", 1)] and 0 in bool_const_returned(q, truthy_edge, head)[0] and ("Eq", 1) in final
                msg = "exists_one(): must stop with false as soon as a second truthy body is seen (count > 1) and yield count == 1 at the end; found early tests %s final %s" % ([(op, c) for _, op, c in early], final)
            else:
                push = [i for (i, t, p) in q.call_sites(r"Vec::<T, A>::push$") if in_loop(i)]
                r_t = q.reach(truthy_edge, blocked={head})
                r_f = q.reach(falsy_edge, blocked={head})
                pushed_on_truthy = any(i in r_t for i in push)
                pushed_on_falsy = any(i in r_f for i in push)
                okp = pushed_on_truthy and not pushed_on_falsy and t_cont and f_cont
                msg = "%s: an element is kept / mapped exactly when its predicate is truthy" % name
                if short == "filter":
                    pv = [mirq.expr_of(q, t["args"][1]) for (i, t, p) in q.call_sites(r"Vec::<T, A>::push$") if in_loop(i)]
                    okp = okp and len(pv) == 1
            if okp:
                chk.ok("R07.2", name + "|polarity", {"truthy_returns": sorted(tc), "falsy_returns": sorted(fc), "negated_test": negated})
            else:
                hbad("R07.2", name + "|polarity", msg + " (truthy edge: returns %s continues=%s; falsy edge: returns %s continues=%s)" % (sorted(tc), t_cont, sorted(fc), f_cont), b.file)
        if short == "map":
            # the 2-argument form pushes every body result; the 3-argument form pushes bytecode[2]'s result
            pv = sorted(mirq.expr_of(q, t["args"][1]) for (i, t, p) in q.call_sites(r"Vec::<T, A>::push$") if in_loop(i))
            want = sorted("Interpreter::run_raw(%s, p4[%d], 1).Ok.0" % (nce, k) for k in (1, 2))
            if pv == want:
                chk.ok("R07.2", name + "|collected values", pv)
            else:
                hbad("R07.2", name + "|collected values", "%s must collect the mapper's result (bytecode[1] in the 2-argument form, bytecode[2] in the 3-argument form): %s" % (name, pv), b.file)
        if short == "reduce":
            seed = "Interpreter::run_raw(p1, p3[3], 1)"
            step = "Interpreter::run_raw(%s, p3[2], 1)" % nce
            want_names = sorted(["eval_ident(p3[0]).Ok.0", "eval_ident(p3[1]).Ok.0"])
            acc = [mirq.expr_of(q, t["args"][2]) for (i, t, p) in bp if mirq.expr_of(q, t["args"][1]) == "eval_ident(p3[0]).Ok.0"]
            nxtv = [mirq.expr_of(q, t["args"][2]) for (i, t, p) in bp if mirq.expr_of(q, t["args"][1]) == "eval_ident(p3[1]).Ok.0"]
            ok_acc = len(acc) == 1 and seed in acc[0] and step in acc[0] and acc[0].startswith("phi(")
            ok_nxt = nxtv == ["Iterator::next(p2.List.0).Some.0"]
            if seed in exprs and ok_acc and ok_nxt and bound_names == want_names:
                chk.ok("R07.2", name + "|accumulator threading", {"acc": acc[0][:120], "next": nxtv})
            else:
                hbad("R07.2", name + "|accumulator threading", "reduce(): the accumulator must start as the seed (bytecode[3] on the caller's interpreter) and then be each step's result, bound to the first name; the element is bound to the second name. acc=%s next=%s" % (acc, nxtv), b.file)
        elif spec["kind"] == "list":
            evs = [v for v in bound_vals]
            if len(evs) == 1 and re.match(r"^Iterator::next\(p2(\.List\.0)?\)\.Some\.0$", evs[0]):
                chk.ok("R07.1", name + "|binds the element", evs[0])
            else:
                hbad("R07.1", name + "|binds the element", "%s must bind the loop variable to the current element, binds %s" % (name, evs), b.file)
    chk.floor("R07.1", "loop functions", len(LOOPS), 8)
    # ---------------- R07.8 what a loop variable shadows
    chk.rule("R07.8", "the loop variable shadows EVERY outer binding of its name: when the VM resolves an identifier, bound variables (loop variables are bound as such in the "
                      "body's child context) are consulted before stored programs, and a stored program is consulted only when no variable has the name")
    import C12 as _c12
    pb_ = F.body(_c12.POP)
    pq_ = mirq.BodyQ(pb_)
    _c12.only_via_miss(chk, "R07.8", pq_, pq_.call_sites(r"Interpreter::<'a>::get_param_by_name$"), pq_.call_sites(r"CelContext::get_program$"), 0, (), "pop|loop variable before stored program")
    chk.analysed = {"loop_functions": sorted(LOOPS), "entry_functions": sorted(ENTRY)}
    return chk.finish(
        "Skeleton, polarity, private-copy and order clauses of the six comprehension macros extracted from MIR: expression trees of call operands, dominance "
        "between bind_param / new_child / run_raw, reachability of the loop head from the truthy / falsy / failure edges, constants returned on early exits. "
        "Decides the loop structure; equality with the defining folds over all lists is not decided.",
        ["rustc MIR + resolved callees", "Vec's IntoIter yields elements front to back (std)"], ["default features", "user-bound macros outside the analysed program"],
        technique="MIR skeleton extraction (operand expression trees + dominance + edge reachability) over the macro loop functions")
