"""C05 ||, &&, ?: and match are lazy and absorb failures by fixed rules; one truthiness.

Decided statically (nothing is run):
  R05.1 laziness and absorption OF THE EMITTED CODE: every template of parse_conditional_or / _and / parse_turnary_expression /
        parse_match_expression (extracted from the parser's MIR by symbolic execution, all builder paths) is interpreted over the
        abstract operand domain {truthy, falsy, failing} with the VM's own semantics of TEST / DUP / POP / NOT / JMPCOND / JMP / OR / AND
        (R05.3, R05.4) and must (a) evaluate exactly the operands the statement allows and (b) yield the class the statement demands,
        for every assignment of classes to the operands
  R05.2 || and && are never constant-folded through the strict CelValue::or / CelValue::and (they are not lazy); the folded ternary
        selects its branch by is_truthy of the constant condition and keeps a failed condition as the result
  R05.3 VM arms TEST / JMPCOND / NOT / DUP / POP / OR / AND behave as the abstract interpreter assumes (extracted by symbolic
        execution of the dispatch arms)
  R05.4 absorption tables of CelValue::or / and / Not::not (all paths over the predicates is_err / is_truthy) equal the statement's
  R05.5 one truthiness: is_truthy's per-variant table is the documented one, and the logical layer consults nothing else
        (no is_true / direct Bool match in or / and / not / TEST)
Not decided: laziness as observed through call-counting user functions is the same fact seen dynamically."""
import itertools, re
import lib, tplrules, semtables, vmtable

OR = "rscel::types::cel_value::CelValue::or"
AND = "rscel::types::cel_value::CelValue::and"
NOT = "<rscel::types::cel_value::CelValue as std::ops::Not>::not"
TRUTHY = "<rscel::types::cel_value::CelValue as rscel::types::cel_value_dyn::CelValueDyn>::is_truthy"
CLS = ("T", "F", "E")


def eval_row_result(r, a, b):
    """class of a table row's result expression given operand classes"""
    if r in ("a",):
        return a
    if r == "b":
        return b
    if r == "CelValue::true_()":
        return "T"
    if r == "CelValue::false_()":
        return "F"
    m = re.match(r"^Into::into<T><-U\((.*)\)$", r)
    if m:
        e = m.group(1)
        if e == "1":
            return "T"
        if e == "0":
            return "F"
        m2 = re.match(r"^CelValueDyn::is_truthy\((a|b)\)$", e)
        if m2:
            return "T" if {"a": a, "b": b}[m2.group(1)] == "T" else "F"
        m3 = re.match(r"^Not\(CelValueDyn::is_truthy\((a|b)\)\)$", e)
        if m3:
            return "F" if {"a": a, "b": b}[m3.group(1)] == "T" else "T"
    return "?" + r


def table_fn(rows):
    """function (a,b) -> class from extracted rows, or error text"""
    def f(a, b="F"):
        val = {"CelValue::is_err(a)": int(a == "E"), "CelValue::is_err(b)": int(b == "E"),
               "CelValueDyn::is_truthy(a)": int(a == "T"), "CelValueDyn::is_truthy(b)": int(b == "T")}
        hits = []
        for preds, res in rows:
            if any(k not in val for k in preds):
                return "?predicate %s" % sorted(set(preds) - set(val))
            if all(val[k] == v for k, v in preds.items()):
                hits.append(eval_row_result(res, a, b))
        if len(set(hits)) != 1:
            return "?rows %s" % hits
        return hits[0]
    return f


def spec_or(a, b):
    if a == "T" or b == "T":
        return "T"
    if a == "E" or b == "E":
        return "E"
    return "F"


def spec_and(a, b):
    if a == "E":
        return "E"
    if a == "F":
        return None          # never applied: the right operand is not evaluated when the left is falsy
    return b


def tpl_eval(items, env, or_fn, and_fn, not_fn):
    """run one template over abstract classes. env: child -> class. returns (executed children, result class | problem)"""
    pos = {it["label"]: n for n, it in enumerate(items) if it["k"] == "label"}
    stack = []
    executed = []
    pc = 0
    steps = 0
    while pc < len(items):
        steps += 1
        if steps > 500:
            return executed, "?loop"
        it = items[pc]
        pc += 1
        k = it["k"]
        if k == "code":
            executed.append(it["child"])
            cls = env.get(it["child"], "V")
            if cls == "=":          # a transformer child (match pattern): replaces the value on top by its own class
                stack.pop()
                cls = env.get(("p", it["child"]), "V")
            stack.append(cls)
        elif k == "label":
            continue
        elif k == "jmp":
            if it["label"] not in pos:
                return executed, "?jump to unplaced label"
            pc = pos[it["label"]]
        elif k == "jmpcond":
            if not stack:
                return executed, "?underflow"
            v = stack.pop()
            if v in ("T", "F"):
                take = (v == "T") == (it["when"] == "True")
            elif v == "E":
                take = it["when"] == "False"
            else:
                return executed, "?JMPCOND on a value that did not pass through TEST (%s)" % v
            if take:
                if it["label"] not in pos:
                    return executed, "?jump to unplaced label"
                pc = pos[it["label"]]
        elif k == "op":
            n = it["name"]
            if n == "Test":
                v = stack.pop()
                stack.append(v if v in CLS else "?TEST of opaque")
                if v not in CLS:
                    # any value: TEST yields its truthiness; opaque operands are enumerated by the caller
                    return executed, "?opaque TEST"
            elif n == "Dup":
                stack.append(stack[-1])
            elif n == "Pop":
                stack.pop()
            elif n == "Not":
                stack.append(not_fn(stack.pop()))
            elif n == "Or":
                b = stack.pop()
                a = stack.pop()
                stack.append(or_fn(a, b))
            elif n == "And":
                b = stack.pop()
                a = stack.pop()
                stack.append(and_fn(a, b))
            elif n == "Push":
                stack.append("N" if "from_null" in " ".join(it.get("args", [])) else "V")
            else:
                return executed, "?unexpected opcode %s in a logical template" % n
        else:
            return executed, "?unrecognised item %s" % k
    if len(stack) != 1:
        return executed, "?final stack %s" % stack
    return executed, stack[0]


def run(chk, tier):
    F = lib.get_facts()
    chk.rule("R05.1", "every emitted template of || && ?: match, interpreted over {truthy, falsy, failing} with the VM's semantics, evaluates exactly the permitted operands and yields the demanded class")
    chk.rule("R05.2", "|| and && are never folded through the strict or()/and(); the folded ternary selects by is_truthy and keeps a failed condition")
    chk.rule("R05.3", "VM arms TEST / JMPCOND / NOT / DUP / POP / OR / AND as assumed by the abstract interpreter (symbolic execution of the arms)")
    chk.rule("R05.4", "absorption tables of or / and / not extracted from MIR equal the statement's")
    chk.rule("R05.5", "is_truthy's variant table is the documented one; the logical layer uses no other notion of truth")

    # ---------------- R05.4 tables
    or_rows, _ = semtables.table(F, OR, 2)
    and_rows, _ = semtables.table(F, AND, 2)
    not_rows, _ = semtables.table(F, NOT, 1)
    or_fn, and_fn, not_fn = table_fn(or_rows), table_fn(and_rows), table_fn(not_rows)
    for a, b in itertools.product(CLS, CLS):
        got, want = or_fn(a, b), spec_or(a, b)
        if got == want:
            chk.ok("R05.4", "or|%s,%s" % (a, b), got)
        else:
            chk.bad("R05.4", "or|%s,%s" % (a, b), "CelValue::or(%s, %s) yields %s, the statement demands %s (true if either side is truthy even if the other fails; otherwise a failing operand fails)" % (a, b, got, want), "rscel/src/types/cel_value.rs")
        got, want = and_fn(a, b), spec_and(a, b)
        if want is None or got == want:
            chk.ok("R05.4", "and|%s,%s" % (a, b), got)
        else:
            chk.bad("R05.4", "and|%s,%s" % (a, b), "CelValue::and(%s, %s) yields %s, the statement demands %s" % (a, b, got, want), "rscel/src/types/cel_value.rs")
    for a in CLS:
        got = not_fn(a)
        want = {"T": "F", "F": "T", "E": "E"}[a]
        if got == want:
            chk.ok("R05.4", "not|%s" % a, got)
        else:
            chk.bad("R05.4", "not|%s" % a, "!%s yields %s, expected %s" % (a, got, want), "rscel/src/types/cel_value.rs")

    # ---------------- R05.3 VM arms
    vm = vmtable.VM(F)
    want_arms = {
        "Test": {("CelValue::is_err(pop1)=0", "push Into::into<T><-U(CelValueDyn::is_truthy(pop1))"), ("CelValue::is_err(pop1)=1", "push pop1")},
        "JmpCond": {("Eq(pop1.Bool.0, JmpWhen::as_bool(insn.JmpCond.0))=0;variant(pop1)=Bool", ""),
                    ("Eq(pop1.Bool.0, JmpWhen::as_bool(insn.JmpCond.0))=1;variant(pop1)=Bool", "jump insn.JmpCond.1"),
                    ("PartialEq::eq(insn.JmpCond.0, JmpWhen::False)=0;variant(pop1)=Err", ""),
                    ("PartialEq::eq(insn.JmpCond.0, JmpWhen::False)=1;variant(pop1)=Err", "jump insn.JmpCond.1")},
        "Not": {("", "push Not::not(pop1)")},
        "Dup": {("", "push pop1;push pop1")},
        "Pop": {("", "")},
        "Or": {("", "push CelValue::or(pop2, pop1)")},
        "And": {("", "push CelValue::and(pop2, pop1)")},
        "Jmp": {("", "jump insn.Jmp.0")},
    }
    for name, want in want_arms.items():
        rows = semtables.arm_paths(F, vm, name)
        if rows is None:
            chk.bad("R05.3", "arm|" + name, "symbolic execution of the %s arm did not finish" % name, vm.b.file)
            continue
        got = set()
        for preds, ev in rows:
            ps = ";".join("%s=%s" % (k, v) for k, v in sorted(preds.items(), key=str))
            es = ";".join("%s %s" % (e[0], e[1]) for e in ev if e[0] != "pop")
            got.add((ps, es))
        if got == want:
            chk.ok("R05.3", "arm|" + name, sorted(got))
        else:
            chk.bad("R05.3", "arm|" + name, "VM arm %s behaves as %s, the abstract interpreter (and the statement) assume %s" % (name, sorted(got), sorted(want)), vm.b.file)
    # as_bool: True <-> true
    ab = F.body("rscel::interp::types::bytecode::JmpWhen::as_bool")
    import symex
    pol = semtables.LogicPolicy()
    it = symex.Interp(F, pol)
    outs = it.run(ab, [symex.U("w", "&rscel::interp::types::bytecode::JmpWhen")])
    tab = sorted((c[2], symex.render(r)) for st, r in outs for c in st.cond if c[0] == "variant")
    if tab == [("False", "0"), ("True", "1")]:
        chk.ok("R05.3", "JmpWhen::as_bool", tab)
    else:
        chk.bad("R05.3", "JmpWhen::as_bool", "JmpWhen::as_bool maps %s" % tab, ab.file)

    # ---------------- R05.5 truthiness table
    tb = F.body(TRUTHY)
    it = symex.Interp(F, semtables.LogicPolicy())
    outs = it.run(tb, [symex.U("v", "&rscel::types::cel_value::CelValue")])
    got = {}
    for st, r in outs:
        for c in st.cond:
            if c[0] == "variant" and c[3] == "v":
                got[c[2]] = symex.render(r)
            elif c[0] == "variant-not" and c[3] == "v":
                got["<other>"] = symex.render(r)
    want = {"Int": "Ne(v.Int.0, 0)", "UInt": "Ne(v.UInt.0, 0)", "Float": "Ne(v.Float.0, const 0f64)", "Bool": "v.Bool.0", "String": "Ne(String::len(v.String.0), 0)",
            "Bytes": "Ne(CelBytes::len(v.Bytes.0), 0)", "List": "Ne(Vec::len(v.List.0), 0)", "Map": "Ne(HashMap::len(v.Map.0), 0)", "Null": "0", "Type": "1",
            "TimeStamp": "1", "Duration": "1", "Err": "0", "Message": "1", "Enum": "Ne(v.Enum.1, 0)", "Dyn": "CelValueDyn::is_truthy(v.Dyn.0)", "<other>": "0"}
    for k in sorted(set(got) | set(want)):
        if got.get(k) == want.get(k):
            chk.ok("R05.5", "is_truthy|" + k, got.get(k))
        else:
            chk.bad("R05.5", "is_truthy|" + k, "truthiness of %s is `%s`, documented: `%s` (non-zero numbers, true, non-empty containers, types, timestamps, durations are truthy; zero, false, empties, null, failures are not)" % (k, got.get(k), want.get(k)), tb.file)
    # the logical layer consults only is_err / is_truthy
    for nm, rows in (("or", or_rows), ("and", and_rows), ("not", not_rows)):
        preds = set(k for p, _ in rows for k in p)
        extra = [p for p in preds if not re.match(r"^(CelValue::is_err|CelValueDyn::is_truthy)\((a|b)\)$", p)]
        if extra:
            chk.bad("R05.5", "single truthiness|" + nm, "CelValue::%s decides on %s: every consumer of truth must use is_truthy (and is_err)" % (nm, extra), "rscel/src/types/cel_value.rs")
        else:
            chk.ok("R05.5", "single truthiness|" + nm, sorted(preds))

    # ---------------- R05.1 / R05.2 templates
    db = tplrules.load(F)
    for m in ("parse_conditional_or", "parse_conditional_and", "parse_turnary_expression", "parse_match_expression"):
        if m in db["errors"]:
            chk.bad("R05.1", "extract|" + m, "template extraction failed: " + db["errors"][m][:200], "rscel/src/compiler/compiler.rs")
    ncase = 0
    for m, spec_chain in (("parse_conditional_or", "or"), ("parse_conditional_and", "and")):
        paths = db["roots"].get(m, [])
        tpls = {}
        for p in paths:
            if p["kind"] == "code":
                tpls.setdefault(p["text"], p)
            elif p["kind"] == "const":
                # R05.2: the only constant result is the single operand itself
                if re.search(r"CelValue::(or|and)\(", p.get("fold", "")):
                    chk.bad("R05.2", "%s|folded through %s" % (m, p["fold"][:60]), "%s folds constant operands with the strict %s: `false && 1/0` / `true || 1/0` must not surface the failure of the operand that is not evaluated" % (m, p["fold"][:80]), "rscel/src/compiler/compiler.rs")
                elif p["fold"].startswith("const:"):
                    chk.ok("R05.2", "%s|single operand passes through" % m)
                else:
                    chk.bad("R05.2", "%s|const %s" % (m, p["fold"][:60]), "%s yields a constant %s that is not its only operand" % (m, p["fold"][:100]), "rscel/src/compiler/compiler.rs")
        for text, p in sorted(tpls.items()):
            kids = sorted(set(tplrules.children_in(p["items"])))
            nparsed = len(p["parses"])
            if kids != list(range(nparsed)):
                chk.bad("R05.1", "%s|%s" % (m, text[:80]), "operands %s were parsed but the code contains %s" % (list(range(nparsed)), kids), "rscel/src/compiler/compiler.rs")
                continue
            okall = True
            for cls in itertools.product(CLS, repeat=len(kids)):
                env = dict(zip(kids, cls))
                ex, res = tpl_eval(p["items"], env, or_fn, and_fn, not_fn)
                # reference: left fold with laziness
                acc = cls[0]
                want_ex = [0]
                for k in kids[1:]:
                    if spec_chain == "or":
                        if acc == "T":
                            break
                        want_ex.append(k)
                        acc = spec_or(acc, cls[k])
                    else:
                        if acc in ("F", "E"):
                            break
                        want_ex.append(k)
                        acc = cls[k]
                ncase += 1
                if ex != want_ex or res != acc:
                    okall = False
                    chk.bad("R05.1", "%s|%s|%s" % (m, text[:80], "".join(cls)),
                            "operands %s: the emitted code evaluates operands %s and yields %s; the statement demands operands %s and %s   [template: %s]" % ("".join(cls), ex, res, want_ex, acc, text[:200]), "rscel/src/compiler/compiler.rs (%s)" % m)
                    break
            if okall:
                chk.ok("R05.1", "%s|%s" % (m, text[:80]), "%d class assignments" % (3 ** len(kids)))
    # ternary
    for p in db["roots"].get("parse_turnary_expression", []):
        if p["kind"] == "code":
            text = p["text"]
            okall = True
            for cls in itertools.product(CLS, repeat=3):
                env = {0: cls[0], 1: cls[1], 2: cls[2]}
                ex, res = tpl_eval(p["items"], env, or_fn, and_fn, not_fn)
                if cls[0] == "T":
                    want_ex, want = [0, 1], cls[1]
                elif cls[0] == "F":
                    want_ex, want = [0, 2], cls[2]
                else:
                    want_ex, want = [0], "E"
                ncase += 1
                if ex != want_ex or res != want:
                    okall = False
                    chk.bad("R05.1", "ternary|%s|%s" % (text[:60], "".join(cls)), "condition %s: the emitted code evaluates %s and yields %s; `c ? x : y` must evaluate exactly one branch chosen by the truthiness of c and fail when c fails (expected %s, %s)   [template: %s]" % (cls[0], ex, res, want_ex, want, text[:220]), "rscel/src/compiler/compiler.rs (parse_turnary_expression)")
                    break
            if okall:
                chk.ok("R05.1", "ternary|%s" % text[:80], "27 class assignments")
        elif p["kind"] in ("child", "const"):
            # folded forms: branch chosen under is_truthy(const:0) / is_err(const:0)
            preds = {c[1]: c[2] for c in p["cond"] if c[0] in ("eq", "ne")}
            conds = {}
            for c in p["cond"]:
                if c[0] == "eq":
                    conds[c[1]] = c[2]
                elif c[0] == "ne":
                    conds[c[1]] = 1 if list(c[2]) == [0] else None
            e = conds.get("CelValue::is_err(const:0)")
            t = conds.get("CelValueDyn::is_truthy(const:0)")
            if p["kind"] == "const":
                good = p["fold"] == "const:0" and e == 1
                what = "failed constant condition is the result"
            else:
                good = e == 0 and ((p["child"] == 1 and t == 1) or (p["child"] == 2 and t == 0))
                what = "branch %s chosen when is_truthy(condition) = %s" % (p["child"], t)
            if good:
                chk.ok("R05.2", "ternary fold|" + what)
            else:
                chk.bad("R05.2", "ternary fold|%s" % p["text"][:60], "the folded ternary must pick branch 1 iff the constant condition is truthy, branch 2 iff falsy, and keep a failed condition: found %s under %s" % (p["text"][:80], conds), "rscel/src/compiler/compiler.rs (parse_turnary_expression)")
    # match
    for p in db["roots"].get("parse_match_expression", []):
        if p["kind"] != "code":
            continue
        text = p["text"]
        ncases = (len(p["parses"]) - 1) // 2
        kids = sorted(set(tplrules.children_in(p["items"])))
        if kids != list(range(len(p["parses"]))):
            chk.bad("R05.1", "match|%s" % text[:80], "parsed %d sub-expressions, code contains %s" % (len(p["parses"]), kids), "rscel/src/compiler/compiler.rs")
            continue
        okall = True
        for cls in itertools.product(CLS, repeat=ncases):
            env = {0: "V"}
            for i in range(ncases):
                env[1 + 2 * i] = "="
                env[("p", 1 + 2 * i)] = cls[i]
                env[2 + 2 * i] = "V%d" % i
            ex, res = tpl_eval(p["items"], env, or_fn, and_fn, not_fn)
            want_ex = [0]
            want = "N"
            for i in range(ncases):
                want_ex.append(1 + 2 * i)
                if cls[i] == "T":
                    want_ex.append(2 + 2 * i)
                    want = "V%d" % i
                    break
            ncase += 1
            if ex != want_ex or res != want:
                okall = False
                chk.bad("R05.1", "match|%s|%s" % (text[:60], "".join(cls)), "patterns %s: the emitted code evaluates %s and yields %s; match must evaluate the patterns in order, only the arm of the first matching case, and yield null when none matches (expected %s, %s)" % ("".join(cls), ex, res, want_ex, want), "rscel/src/compiler/compiler.rs (parse_match_expression)")
                break
        if okall:
            chk.ok("R05.1", "match|%s" % text[:80], "%d pattern outcomes" % (3 ** ncases))
    chk.floor("R05.1", "abstract evaluations", ncase, 80)
    chk.analysed = {"templates": {m: len(db["roots"].get(m, [])) for m in ("parse_conditional_or", "parse_conditional_and", "parse_turnary_expression", "parse_match_expression")},
                    "abstract_evaluations": ncase, "or_rows": len(or_rows), "and_rows": len(and_rows)}
    return chk.finish(
        "Laziness and absorption decided on the emitted templates themselves: each template of || && ?: match (all builder paths of the parser, extracted by symbolic "
        "execution of its MIR) is interpreted over the operand classes {truthy, falsy, failing} using the VM arm semantics and the or/and/not tables that are themselves "
        "extracted from MIR, and compared with the statement for every class assignment (%d evaluations). Truthiness table of is_truthy compared variant by variant." % ncase,
        ["rustc MIR", "symex summaries", "abstract domain {T,F,E} is exact for TEST/JMPCOND/NOT/OR/AND because they branch only on is_err / is_truthy / the Bool payload (R05.3, R05.4)"],
        ["default features (type_prop)", "chains unrolled to three operands, match to two cases; further operands repeat the same loop body"],
        technique="symbolic execution of parser MIR into templates + abstract interpretation of the templates over {truthy, falsy, failing} with VM semantics extracted from MIR")
