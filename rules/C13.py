"""C13 literals denote exactly what they spell - structural clauses on the literal path (tokenizer number/escape scanners, parser narrowing)."""
import re
import lib, common, symex, semtables

TK = "rscel::compiler::string_tokenizer::StringTokenizer::<'l>::"
# the CEL escape table (langdef: string and bytes literals); value = code unit the escape denotes, or the helper it reads
ESCAPES = {"a": 7, "b": 8, "f": 12, "n": 10, "r": 13, "t": 9, "v": 11, "\\": 92, "'": 39, '"': 34, "x": "hex(2)", "X": "hex(2)"}
STRING_ONLY = {"u": "hex(4)", "U": "hex(8)"}


def _split_args(txt):
    out, depth, cur = [], 0, ""
    for ch in txt:
        if ch in "([{":
            depth += 1
        elif ch in ")]}":
            depth -= 1
        if ch == "," and depth == 0:
            out.append(cur.strip())
            cur = ""
        else:
            cur += ch
    if cur.strip():
        out.append(cur.strip())
    return out


def norm_payload(F, e, depth=0):
    """a token payload expression with (a) the `?` operator and error-mapping combinators read as "the Ok payload of" and (b) calls of private
    tokenizer helpers replaced by what the helper returns (its return expression with the arguments substituted)"""
    import mirq as _m
    for _ in range(6):
        e2 = re.sub(r"Try::branch\((.*)\)\.Continue\.0", r"\1.Ok.0", e)
        e2 = re.sub(r"Result::map_err\((.*), closure#\d+(?:\{[^{}]*\})?\)\.Ok\.0", r"\1.Ok.0", e2)
        if e2 == e:
            break
        e = e2
    m = re.match(r"^StringTokenizer::(\w+)\((.*)\)\.Ok\.0$", e)
    if m and depth < 3:
        hb = [b for b in F.bodies.values() if b.path == TK + m.group(1)]
        if hb and str(hb[0].d.get("vis", "")).startswith("Restricted"):
            args = _split_args(m.group(2))
            ret = _m.expr_of(_m.BodyQ(hb[0]), {"move": {"l": 0}})
            ret = re.sub(r"\bp(\d+)\b", lambda mm: "(%s)" % args[int(mm.group(1)) - 1] if int(mm.group(1)) - 1 < len(args) else mm.group(0), ret)
            ret = re.sub(r"\((p\d+|phi\([^()]*(?:\([^()]*\)[^()]*)*\)|\d+)\)", r"\1", ret)
            return norm_payload(F, ret + ".Ok.0", depth + 1)
    return e


class ScanPolicy(semtables.LogicPolicy):
    """scanner calls yield fresh unknown characters; the root's own loop is cut after one iteration (the state at the cut shows what
    one step of the literal loop appended); error construction ends a path"""
    max_paths = 40000

    def __init__(self, root, inner_limit=4):
        self.root = root
        self.done = []
        self.errors = []
        self.inner_limit = inner_limit

    def limit_for(self, body, blk):
        return 1 if body.path == TK + self.root else self.inner_limit

    def abandoned(self, st, body, blk):
        if body.path == TK + self.root:
            self.done.append(st)

    def inline(self, path, body):
        # private helpers of the tokenizer other than the hex-escape reader (its own table is R13.5) are part of the scanner that calls them
        return path.startswith(TK) and "::{closure" not in path and not path.endswith(("extract_hex_val", "::" + self.root)) and \
            str(body.d.get("vis", "")).startswith("Restricted") and not re.search(r"::(collect_next_token|parse_\w+_literal|parse_number_or_token|parse_keywords_or_ident)$", path) \
            or "::{closure" in path

    def stub(self, interp, st, path, c, args, t, caller):
        m = re.search(r"string_scanner::StringScanner::<'l>::(next|peek|location)$", path)
        if m:
            n = sum(1 for e in st.trace if e[0] == "scan")
            st.event("scan", n, m.group(1))
            if m.group(1) == "location":
                return [(st, symex.U("loc#%d" % n))]
            return [(st, symex.U("%s#%d" % (m.group(1), n), "std::option::Option<char>"))]
        if path.endswith("StringTokenizer::<'l>::extract_hex_val"):
            st.event("hex", symex.render(args[1]))
            return [(st, symex.ok(("call", "hex", (args[1],), "char")))]
        if path.endswith("syntax_error::SyntaxError::from_location"):
            st.event("error")
            self.errors.append(st)
            return []
        return None


def escape_table(F, root, extra_args):
    """{escape character (or class) : what one loop step appends} for a literal scanner"""
    b = F.body(TK + root)
    pol = ScanPolicy(root)
    it = symex.Interp(F, pol)
    names = {v["name"]: v["place"]["l"] for v in b.d["dbg"] if "p" not in v["place"]}
    it.run(b, [symex.U("self"), symex.U("starting", "char")] + extra_args)
    tab = {}
    for st in pol.done + pol.errors:
        conds = [(c[0], c[1], c[2]) for c in st.cond if c[0] in ("eq", "ne")]
        # only the steps that follow a backslash
        if ("ne", "Eq(next#0.Some.0, 92)", (0,)) not in [(k, e, tuple(v) if isinstance(v, (list, tuple)) else v) for k, e, v in conds]:
            continue
        key = None
        for k, e, v in conds:
            if e == "next#1.Some.0" and k == "eq":
                key = chr(v)
            elif e == "next#1.Some.0" and k == "ne":
                key = "<other>"
        rng = [(e, v) for k, e, v in conds if re.match(r"^(Le|Ge|Lt|Gt)\(", e) and "next#1.Some.0" in e]
        if key == "<other>" and rng:
            lo = [e for e, v in rng]
            key = "<other>" + "|" + ";".join("%s=%s" % (e, 1 if isinstance(v, (list, tuple)) else v) for e, v in rng)
        if key is None:
            continue
        if st in pol.errors:
            act = "error"
        else:
            fr = st.frames[min(st.frames)]
            w = symex.render(fr.get(names.get("working", -1), symex.U("?")))
            m = re.match(r"^(?:String::push|Vec::push)!\(\[\], (.*)\)$", w) or re.match(r"^\[(.*)\]$", w)
            act = m.group(1) if m else w
            act = re.sub(r"^as u8\((.*)\)$", r"\1", act)
        tab.setdefault(key, set()).add(act)
    return tab


def run(chk, tier):
    F = lib.get_facts()
    chk.rule("R13.1", "the parser never narrows an integer literal with a wrapping `as` cast (an out-of-range spelling must be rejected)")
    chk.rule("R13.2", "numbers are converted by std's parsers (from_str_radix / str::parse), code points are validated by char::from_u32")
    chk.rule("R13.3", "string and bytes literal scanners agree on the escape helper they use")
    pp = F.body("rscel::compiler::compiler::CelCompiler::<'l>::parse_primary")
    for (ck, fr, to), n in sorted(common.casts_of(pp).items()):
        key = "parse_primary|cast %s->%s" % (fr, to)
        if (fr, to) == ("usize", "u32"):
            chk.ok("R13.1", key, "element counts of list / map literals (A-size)")
        elif (fr, to) in common.LOSSY_INT:
            chk.bad("R13.1", key, "integer literal narrowed with `as` (%s -> %s, x%d): a literal above the int range evaluates to a different (wrapped) value instead of a syntax error" % (fr, to, n), pp.file)
        else:
            chk.ok("R13.1", key)
    tk = [b for b in F.find(r"string_tokenizer::StringTokenizer::<'l>::", "rscel")]
    chk.floor("R13.2", "tokenizer bodies", len(tk), 10)
    num = F.body("rscel::compiler::string_tokenizer::StringTokenizer::<'l>::parse_number_or_token")
    cal = {}
    for b in common.with_private_callees(F, num):
        cal.update(common.callees_g(b))
        for (ck, fr, to), n in common.casts_of(b).items():
            if (fr, to) in common.LOSSY_INT:
                chk.bad("R13.1", "parse_number_or_token|cast %s->%s" % (fr, to), "wrapping cast in the number scanner", b.file)
    for want in (r"impl u64>::from_str_radix<|str>::parse<u64>", r"str>::parse<f64>"):
        if any(re.search(want, c) for c in cal):
            chk.ok("R13.2", "parse_number_or_token|" + want)
        else:
            chk.bad("R13.2", "parse_number_or_token|" + want, "number scanner no longer converts with %s" % want, num.file)
    # every numeric token the scanner builds carries the std parser's result for the scanned text - on every path, nothing in between
    import mirq as _mq
    qn_ = _mq.BodyQ(num)
    TEXT = r"(?:p\d+|phi\([^()]*(?:\([^()]*\)[^()]*)*\)|str::trim_start_matches\(p\d+, \"0x\"\)|Deref::deref\(p\d+\)|String::as_str\(p\d+\))"
    LIT_RX = {"FloatLit": r"^str::parse<f64>\(%s\)\.Ok\.0$" % TEXT,
              "IntLit": r"^(?:TryFrom<i64<-u64>::try_from\()?(?:u64::from_str_radix\(%s, (?:10|16|phi\(10 \| 16\)|phi\(16 \| 10\))\)|str::parse<u64>\(%s\))\.Ok\.0(?:\)\.Ok\.0)?$" % (TEXT, TEXT),
              "UIntLit": r"^(?:u64::from_str_radix\(%s, (?:10|16|phi\(10 \| 16\)|phi\(16 \| 10\))\)|str::parse<u64>\(%s\))\.Ok\.0$" % (TEXT, TEXT)}
    seen_lit = set()
    for i_, adt_, var_, s_ in qn_.aggregates(adt_suffix="tokens::Token"):
        if var_ not in LIT_RX:
            continue
        seen_lit.add(var_)
        ex_ = [norm_payload(F, _mq.expr_of(qn_, o_)) for o_ in s_["rv"]["ops"]]
        if len(ex_) == 1 and re.match(LIT_RX[var_], ex_[0]):
            chk.ok("R13.2", "token payload|%s" % var_, ex_[0][:100])
        else:
            chk.bad("R13.2", "token payload|%s|%s" % (var_, ex_[0][:60] if ex_ else "?"), "a %s token is built from %s: a numeric literal must denote exactly what the std parser returns for its text "
                                                   "(correctly rounded for doubles), on every path" % (var_, ex_), num.file)
    for v_ in LIT_RX:
        if v_ not in seen_lit:
            chk.bad("R13.2", "token payload|%s" % v_, "the number scanner no longer builds %s tokens" % v_, num.file)
    hx = F.body("rscel::compiler::string_tokenizer::StringTokenizer::<'l>::extract_hex_val")
    c2 = common.callees_of(hx)
    if any(c.endswith("char::methods::<impl char>::from_u32") for c in c2) and not any("from_u32_unchecked" in c for c in c2):
        chk.ok("R13.2", "extract_hex_val|char::from_u32")
    else:
        chk.bad("R13.2", "extract_hex_val|char::from_u32", "code points are not validated through char::from_u32", hx.file)
    s = F.body("rscel::compiler::string_tokenizer::StringTokenizer::<'l>::parse_string_literal")
    by = F.body("rscel::compiler::string_tokenizer::StringTokenizer::<'l>::parse_bytes_literal")
    hs = sum(n for c, n in common.callees_of(s).items() if c.endswith("extract_hex_val"))
    hb = sum(n for c, n in common.callees_of(by).items() if c.endswith("extract_hex_val"))
    if hs >= 1 and hb >= 1:
        chk.ok("R13.3", "extract_hex_val shared", {"string": hs, "bytes": hb})
    else:
        chk.bad("R13.3", "extract_hex_val shared", "string (%d) and bytes (%d) scanners no longer share the hex escape helper" % (hs, hb), s.file)
    # ---------------- R13.8 bytes literals: a scanned character contributes its UTF-8 encoding, never its low byte
    chk.rule("R13.8", "bytes literal scanner: the only `char as u8` narrowings are of the value of a one- or two-digit hex escape (at most 0xFF) or of a character tested to be ASCII; "
                      "an unescaped character is appended through its UTF-8 encoding")
    n_c8 = 0
    for b_ in common.with_private_callees(F, by):
        if b_.path.endswith("extract_hex_val"):
            continue
        qb_ = _mq.BodyQ(b_)
        doms_ = None
        for blk_, st_ in b_.stmts():
            rv_ = st_.get("rv", {})
            if rv_.get("k") != "cast" or not rv_["ck"].startswith("IntToInt") or (rv_.get("from"), rv_.get("to")) != ("char", "u8"):
                continue
            if isinstance(rv_.get("op"), dict) and "const" in rv_["op"]:
                continue
            n_c8 += 1
            ex_ = _mq.expr_of(qb_, rv_["op"])
            key_ = "bytes|char as u8|" + re.sub(r"\bp\d+\b", "p", ex_)[:70]
            if re.search(r"extract_hex_val\([^,()]+, [12]\)", ex_):
                chk.ok("R13.8", key_, "value of a two-digit hex escape")
                continue
            # dominated by the true edge of an ASCII test of the same value?
            guarded_ = False
            for sb_, t_ in b_.terms("switch"):
                de_ = _mq.expr_of(qb_, t_["discr"])
                if not re.search(r"is_ascii\w*\(", de_):
                    continue
                one_ = [c_[1] for c_ in t_["cases"] if int(c_[0]) == 1]
                zero_ = [c_[1] for c_ in t_["cases"] if int(c_[0]) == 0]
                tt_ = one_[0] if one_ else (t_["otherwise"] if zero_ else None)
                ft_ = zero_[0] if zero_ else t_["otherwise"]
                if tt_ is not None and tt_ != ft_ and b_.dominates(tt_, blk_):
                    guarded_ = True
            if guarded_:
                chk.ok("R13.8", key_, "under an ASCII test")
            else:
                chk.bad("R13.8", key_, "parse_bytes_literal narrows the character %s to one byte with `as u8`: an unescaped character at or above U+0100 contributes only its low byte "
                                       "(b'\u20ac' would be [0xAC]) and one in U+0080..U+00FF a single byte instead of its two-byte UTF-8 encoding" % ex_[:80], b_.file)
    cal_by = {}
    for b_ in common.with_private_callees(F, by):
        cal_by.update(common.callees_g(b_))
    if any(re.search(r"char>::encode_utf8|char>::to_string|String::push$|<char as .*ToString>|String>::push\b", c_) for c_ in cal_by):
        chk.ok("R13.8", "bytes|unescaped characters are UTF-8 encoded")
    else:
        chk.bad("R13.8", "bytes|unescaped characters are UTF-8 encoded", "the bytes literal scanner no longer encodes unescaped characters as UTF-8 (no encode_utf8 / String::push)", by.file)
    chk.floor("R13.8", "char->u8 narrowings examined", n_c8, 1)
    # ---------------- R13.4 escape tables (one step of the literal loop after a backslash, by symbolic execution)
    chk.rule("R13.4", "escape tables of string and bytes literals = the CEL table (\\a \\b \\f \\n \\r \\t \\v \\\\ \\' \\\" \\xHH, strings also \\uHHHH \\UHHHHHHHH, three octal digits); any other escape is an error, not a value")
    chk.rule("R13.5", "extract_hex_val yields a character only after exactly `len` hex digits; fewer digits, a non-hex character or an invalid code point are errors")
    chk.rule("R13.6", "the number scanner accepts exactly decimal digits (and hexadecimal digits after 0x); hexadecimal literals are integers")
    tabs = {}
    for root, extra in (("parse_string_literal", [symex.I(0), symex.I(0)]), ("parse_bytes_literal", [])):
        try:
            tab = escape_table(F, root, extra)
        except symex.TooManyPaths as e_:
            chk.bad("R13.4", root + "|extract", "symbolic execution of %s did not finish: %s" % (root, e_), "rscel/src/compiler/string_tokenizer.rs")
            continue
        tabs[root] = tab
        want = dict(ESCAPES)
        if root == "parse_string_literal":
            want.update(STRING_ONLY)
        for ch, val in sorted(want.items()):
            got = tab.get(ch)
            exp = {str(val)}
            if got == exp:
                chk.ok("R13.4", "%s|\\%s" % (root, ch), sorted(got))
            else:
                chk.bad("R13.4", "%s|\\%s" % (root, ch), "escape \\%s appends %s, the CEL table says %s" % (ch, sorted(got) if got else "nothing (not handled)", sorted(exp)), "rscel/src/compiler/string_tokenizer.rs (%s)" % root)
        for ch, got in sorted(tab.items()):
            if ch in want:
                continue
            if ch.startswith("<other>"):
                # octal digits are handled under a range test; everything else must be rejected
                vals = set(got)
                # "denotes itself" = the escape character is appended as it is (an octal escape COMPUTES a character from its three digits)
                selfpush = [g for g in vals if "next#1.Some.0" in g and not g.startswith("error") and not re.search(r"next#[2-9]", g)]
                if selfpush and "Le(next#1.Some.0" not in ch and "=1" not in ch.split("|", 1)[-1].split(";")[-1]:
                    chk.bad("R13.4", "%s|unknown escape" % root, "an escape character outside the table is accepted and denotes itself (`'a\\qb'` spells \"aqb\"): malformed escapes must be rejected with a syntax error" , "rscel/src/compiler/string_tokenizer.rs (%s)" % root)
                elif selfpush:
                    chk.bad("R13.4", "%s|unknown escape" % root, "an escape character outside the table is accepted and denotes itself (`'a\\qb'` spells \"aqb\"): malformed escapes must be rejected with a syntax error", "rscel/src/compiler/string_tokenizer.rs (%s)" % root)
                elif any(not g.startswith("error") for g in vals):
                    # the one accepting range row is the octal escape: its first digit is 0..3 (three octal digits denote at most \\377)
                    conds_ = sorted(ch.split("|", 1)[-1].split(";"))
                    narrow_u8 = root == "parse_bytes_literal" and any(re.search(r"impl u8>::from_str_radix(<>)?$", c_) for c_ in common.callees_g(F.body(TK + root))) \
                        and conds_[:1] == ["Le(48, next#1.Some.0)=1"] and conds_[1:] in (["Le(next#1.Some.0, %d)=1" % k_] for k_ in range(51, 56))
                    # (a bytes escape is converted as a u8: from_str_radix itself rejects everything above \\377, whatever the first digit)
                    if conds_ == ["Le(48, next#1.Some.0)=1", "Le(next#1.Some.0, 51)=1"] or narrow_u8:
                        chk.ok("R13.4", "%s|octal first digit 0..3" % root, conds_)
                    else:
                        chk.bad("R13.4", "%s|octal first digit 0..3" % root, "an escape is accepted under the range test %s: an octal escape starts with 0..3 (\\000-\\377); "
                                                                             "a wider range accepts \\400-\\777 as characters above U+00FF" % conds_, "rscel/src/compiler/string_tokenizer.rs (%s)" % root)
                else:
                    chk.ok("R13.4", "%s|%s" % (root, ch[:60]), sorted(vals)[:3])
            else:
                chk.bad("R13.4", "%s|\\%s" % (root, ch), "escape \\%s is not in the CEL table but appends %s" % (ch, sorted(got)), "rscel/src/compiler/string_tokenizer.rs (%s)" % root)
    if len(tabs) == 2:
        shared = set(ESCAPES)
        diff = [c_ for c_ in shared if tabs["parse_string_literal"].get(c_) != tabs["parse_bytes_literal"].get(c_)]
        if diff:
            chk.bad("R13.3", "string / bytes tables agree", "string and bytes literals disagree on the escapes %s" % diff, "rscel/src/compiler/string_tokenizer.rs")
        else:
            chk.ok("R13.3", "string / bytes tables agree", sorted(shared))
    # ---------------- R13.5 extract_hex_val for len = 2
    hb = F.body(TK + "extract_hex_val")

    class HexPolicy(ScanPolicy):
        def limit_for(self, body, blk):
            return 6

        def abandoned(self, st, body, blk):
            pass
    pol = HexPolicy("extract_hex_val")
    it = symex.Interp(F, pol)
    outs = it.run(hb, [symex.U("self"), symex.I(2)])
    oks = []
    for st, r in outs:
        scans = [e for e in st.trace if e[0] == "scan" and e[2] == "next"]
        digits = [(c[1], c[2]) for c in st.cond if c[0] in ("eq", "ne") and re.search(r"is_digit\(.*, 16\)|is_ascii_hexdigit\(", c[1])]
        if r[0] == "adt" and r[2] == "Ok":
            oks.append((len(scans), digits, [c for c in st.cond if c[0] == "variant" and "from_u32" in str(c[3])]))
    good = bool(oks) and all(n == 2 and len(d) == 2 and all((v == 1 or v == (0,) or list(v) == [0]) if not isinstance(v, int) else v == 1 for _, v in d) and len(fu) == 1 and fu[0][2] == "Some" for n, d, fu in oks)
    if good:
        chk.ok("R13.5", "extract_hex_val(2)", {"ok_paths": len(oks), "reads": 2, "each digit tested": True, "code point validated": True})
    else:
        chk.bad("R13.5", "extract_hex_val(2)", "extract_hex_val(2) can succeed after reading %s characters with digit tests %s: a truncated or malformed \\x / \\u escape must be a syntax error" % (sorted(set(n for n, _, _ in oks)), [d for _, d, _ in oks][:2]), hb.file)
    # ---------------- R13.6 hexadecimal digit class of the number scanner
    import mirq
    qn = mirq.BodyQ(num)
    hexd = qn.call_sites(r"char::methods::<impl char>::(is_ascii_hexdigit|is_digit)$")
    okh = False
    for i, t, pth in hexd:
        arg = mirq.expr_of(qn, t["args"][0])
        if "StringScanner::peek" not in arg:
            continue
        # the test is taken only in the hexadecimal state, and its true edge consumes the character into the number
        cmp16 = [c for c in qn.const_compares() if c[2] == 16 and c[1] == "Eq" and num.dominates(c[0], i)]
        sw = None
        cur = t["t"]
        for _ in range(6):
            t2 = num.blocks[cur]["term"]
            if t2 and t2["k"] == "switch":
                sw = t2
                break
            s_ = num.succs(cur)
            if len(s_) != 1:
                break
            cur = s_[0]
        if sw and cmp16:
            zero = [c_[1] for c_ in sw["cases"] if int(c_[0]) == 0]
            true_t = sw["otherwise"] if zero else [c_[1] for c_ in sw["cases"] if int(c_[0]) == 1][0]
            reg = qn.reach(true_t, blocked={j for j, _, _ in qn.call_sites(r"StringScanner::<'l>::peek$")})
            pushes = [1 for j, _, p_ in qn.call_sites(r"String::push$") if j in reg]
            nexts = [1 for j, _, p_ in qn.call_sites(r"StringScanner::<'l>::next$") if j in reg]
            okh = okh or (bool(pushes) and bool(nexts))
    if okh:
        chk.ok("R13.6", "hexadecimal digits are consumed after 0x")
    else:
        chk.bad("R13.6", "hexadecimal digits are consumed after 0x", "the number scanner never consumes the digits a-f / A-F in its hexadecimal state: `0xff` is not an integer literal (it stops after `0x`)", num.file)
    # the radix handed to from_str_radix, read off the (helper-normalised) payloads of the integer tokens
    radix = []
    for i_, adt_, var_, s_ in qn.aggregates(adt_suffix="tokens::Token"):
        if var_ in ("IntLit", "UIntLit"):
            for o_ in s_["rv"]["ops"]:
                m_ = re.search(r"u64::from_str_radix\(.*, ((?:phi\([^()]*\)|\w+))\)\.Ok\.0", norm_payload(F, mirq.expr_of(qn, o_)))
                if m_:
                    radix.append(m_.group(1))
    if radix and all(re.search(r"phi\(.*10.*16|16.*10|^_\d+$|base", r_) or r_ not in ("10",) for r_ in radix):
        chk.ok("R13.6", "integers are converted in the scanned base", radix)
    else:
        chk.bad("R13.6", "integers are converted in the scanned base", "from_str_radix is called with radix %s" % radix, num.file)
    chk.rule("R13.7", "unary minus: checked negation on int, IEEE sign flip on double (so negative literals denote what they spell, incl. -0.0), error otherwise")
    # ---- unary minus decision table (symbolic execution): int -> checked_neg (None = error), double -> the IEEE sign flip
    # (MIR Neg on f64: -(+0.0) = -0.0, which `0.0 - x` is not), every other operand an error, a failed operand is kept
    nb_ = F.body("<rscel::types::cel_value::CelValue as std::ops::Neg>::neg")
    it_ = symex.Interp(F, semtables.LogicPolicy())
    rows_ = {}
    for st_, r_ in it_.run(nb_, [symex.U("a", "rscel::types::cel_value::CelValue")]):
        pos = [c[2] for c in st_.cond if c[0] == "variant" and c[3] == "a"]
        opt = [c[2] for c in st_.cond if c[0] == "variant" and "checked_neg" in str(c[3])]
        err = [c for c in st_.cond if c[0] in ("eq", "ne") and c[1] == "CelValue::is_err(a)"]
        failed = bool(err) and not (err[0][0] == "eq" and err[0][2] == 0)
        key_ = "failed" if failed else ((pos[0] if pos else "other") + ("/" + opt[0] if opt else ""))
        rows_[key_] = symex.render(r_)
    int_ok = re.compile(r"i64::checked_neg\(a\.Int\.0\)|i64::checked_sub\(0, a\.Int\.0\)|^Sub::sub\(CelValue::from_int\(0\), a\)$|^CelValue::from_err\(")
    int_rows = {k_: v_ for k_, v_ in rows_.items() if k_.startswith("Int")}
    if int_rows and all(int_ok.search(v_) for v_ in int_rows.values()) and any("checked_" in v_ or "Sub::sub" in v_ for v_ in int_rows.values()):
        chk.ok("R13.7", "neg|Int", sorted(int_rows.values())[0][:80])
    else:
        chk.bad("R13.7", "neg|Int", "unary minus on an int must be a checked negation (error on the minimum int): %s" % int_rows, nb_.file)
    want_ = {"failed": r"^a$", "Float": r"^From::from<CelValue><-f64\(Neg\(a\.Float\.0\)\)$", "other": r"^CelValue::from_err\("}
    for k_, rx_ in want_.items():
        g_ = rows_.get(k_)
        if g_ is not None and re.match(rx_, g_):
            chk.ok("R13.7", "neg|" + k_, g_[:80])
        else:
            chk.bad("R13.7", "neg|" + k_, "unary minus on %s yields %s; expected %s (double: the IEEE sign flip, so that -(0.0) is -0.0 - `0.0 - x` gives +0.0; anything else an error)" % (k_, g_, rx_), nb_.file)
    for k_ in set(rows_) - set(want_) - set(int_rows):
        chk.bad("R13.7", "neg|" + k_, "unary minus has an unexpected case %s -> %s" % (k_, rows_[k_][:100]), nb_.file)
    return chk.finish(
        "Cast and callee rules on the literal path: parser narrowing of IntLit, the number scanner's conversion primitives, code-point validation, "
        "shared escape helper; escape tables of both literal scanners extracted by symbolic execution of one loop step after a backslash "
        "and compared with the CEL table; decision table of extract_hex_val.",
        ["rustc MIR", "std from_str_radix / parse / char::from_u32 contracts"], ["default features"], technique="MIR cast/callee rules + symbolic execution of the literal scanners into escape tables")
