"""C13 literals denote exactly what they spell - structural clauses on the literal path (tokenizer number/escape scanners, parser narrowing)."""
import re
import lib, common


def run(chk, tier):
    F = lib.get_facts()
    chk.rule("R13.1", "the parser never narrows an integer literal with a wrapping `as` cast (an out-of-range spelling must be rejected)")
    chk.rule("R13.2", "numbers are converted by std's parsers (from_str_radix / str::parse), code points are validated by char::from_u32")
    chk.rule("R13.3", "string and bytes literal scanners agree on the escape helper they use")
    pp = F.body("rscel::compiler::compiler::CelCompiler::<'l>::parse_primary")
    for (ck, fr, to), n in sorted(common.casts_of(pp).items()):
        key = "parse_primary|cast %s->%s" % (fr, to)
        if (fr, to) == ("usize", "u32"):
            chk.ok("R13.1", key, "element counts of list / map literals (A-size)")
        elif (fr, to) in common.LOSSY_INT:
            chk.bad("R13.1", key, "integer literal narrowed with `as` (%s -> %s, x%d): a literal above the int range evaluates to a different (wrapped) value instead of a syntax error" % (fr, to, n), pp.file)
        else:
            chk.ok("R13.1", key)
    tk = [b for b in F.find(r"string_tokenizer::StringTokenizer::<'l>::", "rscel")]
    chk.floor("R13.2", "tokenizer bodies", len(tk), 10)
    num = F.body("rscel::compiler::string_tokenizer::StringTokenizer::<'l>::parse_number_or_token")
    cal = {}
    for b in common.with_closures(F, num):
        cal.update(common.callees_g(b))
        for (ck, fr, to), n in common.casts_of(b).items():
            if (fr, to) in common.LOSSY_INT:
                chk.bad("R13.1", "parse_number_or_token|cast %s->%s" % (fr, to), "wrapping cast in the number scanner", b.file)
    for want in (r"impl u64>::from_str_radix<|str>::parse<u64>", r"str>::parse<f64>"):
        if any(re.search(want, c) for c in cal):
            chk.ok("R13.2", "parse_number_or_token|" + want)
        else:
            chk.bad("R13.2", "parse_number_or_token|" + want, "number scanner no longer converts with %s" % want, num.file)
    hx = F.body("rscel::compiler::string_tokenizer::StringTokenizer::<'l>::extract_hex_val")
    c2 = common.callees_of(hx)
    if any(c.endswith("char::methods::<impl char>::from_u32") for c in c2) and not any("from_u32_unchecked" in c for c in c2):
        chk.ok("R13.2", "extract_hex_val|char::from_u32")
    else:
        chk.bad("R13.2", "extract_hex_val|char::from_u32", "code points are not validated through char::from_u32", hx.file)
    s = F.body("rscel::compiler::string_tokenizer::StringTokenizer::<'l>::parse_string_literal")
    by = F.body("rscel::compiler::string_tokenizer::StringTokenizer::<'l>::parse_bytes_literal")
    hs = sum(n for c, n in common.callees_of(s).items() if c.endswith("extract_hex_val"))
    hb = sum(n for c, n in common.callees_of(by).items() if c.endswith("extract_hex_val"))
    if hs >= 1 and hb >= 1:
        chk.ok("R13.3", "extract_hex_val shared", {"string": hs, "bytes": hb})
    else:
        chk.bad("R13.3", "extract_hex_val shared", "string (%d) and bytes (%d) scanners no longer share the hex escape helper" % (hs, hb), s.file)
    return chk.finish(
        "Cast and callee rules on the literal path: parser narrowing of IntLit, the number scanner's conversion primitives, code-point validation, "
        "shared escape helper. Decides only these clauses; the escape tables themselves (which character each escape denotes, the hex digit class) "
        "are NOT decided - that needs the syntax-level table extractor that was not built.",
        ["rustc MIR", "std from_str_radix / parse / char::from_u32 contracts"], ["default features"], technique="MIR cast/callee rules over the literal path")
