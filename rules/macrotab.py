"""Decision behaviour of the comprehension macros on lists of 0..N elements, extracted by symbolic execution of the macro
implementations (body evaluation = opaque run_raw result; the path forks on Ok / Err and on is_truthy), and the same behaviour
generated from the defining folds of the property.  Both are sets of
    (steps, result)   steps = ((element index, body block, outcome), ...)   outcome in T / F / E / V (value, truth not consulted)
                      result = ('bool', 0|1) | ('err', step number) | ('list', (item, ...)) | ('val', text)
Comparing the two sets decides, for every assignment of outcomes to the body evaluations, which elements are visited in which
order, where the evaluation stops, and what is returned."""
import itertools, re
import lib, symex, semtables

CV = "rscel::types::cel_value::CelValue"
DM = "rscel::context::default_macros::"

# macro -> (body path suffix, how to call it, blocks)
TARGETS = {
    "all": (DM + "all::all_impl", "impl", 2),
    "exists": (DM + "exists::exists_impl", "impl", 2),
    "exists_one": (DM + "exists_one::exists_one_impl", "impl", 2),
    "filter": (DM + "filter::filter_list", "list1", 2),
    "map": (DM + "map::map_list", "listn", 2),
    "map3": (DM + "map::map_list", "listn", 3),
    "reduce": (DM + "reduce::reduce_impl", "impl", 4),
}


class MacroPolicy(semtables.LogicPolicy):
    max_paths = 40000

    def limit_for(self, body, blk):
        return 10

    def inline(self, path, body):
        # private helpers of the macro modules (a per-element routine shared by two variants, say) are part of the macro
        return semtables.LogicPolicy.inline(self, path, body) or (path.startswith(DM) and str(body.d.get("vis", "")).startswith("Restricted"))

    def stub(self, interp, st, path, c, args, t, caller):
        for nm in ("run_raw", "eval_ident", "setup_context", "new_child", "bind_param"):
            if path.endswith("::" + nm):
                k = len([e for e in st.trace if e[0] == "call" and e[1] == nm]) + 1
                st.event("call", nm, tuple(symex.render(a)[:70] for a in args))
                if nm == "bind_param":
                    return [(st, ("unit",))]
                return [(st, ("call", nm + "#%d" % k, tuple(), "R"))]
        return None


def extract(F, macro, n):
    path, how, nblocks = TARGETS[macro]
    b = F.body(path)
    it = symex.Interp(F, MacroPolicy())
    elems = ("seq", tuple(symex.U("e%d" % i, CV) for i in range(n)))
    blocks = ("seq", tuple(symex.U("b%d" % i) for i in range(nblocks)))
    if how == "impl":
        args = [symex.U("ctx"), symex.adt(CV, "List", (elems,)), blocks]
    elif how == "list1":
        args = [symex.U("ctx"), elems, symex.U("name"), symex.U("b1")]
    else:
        args = [symex.U("ctx"), elems, symex.U("name"), blocks]
    out = set()
    junk = []
    for st, r in it.run(b, args):
        rr = symex.render(symex.deep(st, r))
        if "eval_ident#" in rr and ".Err.0" in rr:
            continue                                   # the loop-variable argument is not an identifier: before the loop
        if rr.startswith("CelValue::from_err(") and not any(e[0] == "call" and e[1] == "run_raw" for e in st.trace):
            continue                                   # wrong arity / not a list: an error raised before anything is evaluated (whatever its wording)
        if macro == "reduce" and any(c[0] == "ne" and "nested_deeper_than(" in str(c[1]) for c in st.cond):
            continue                                   # the accumulator is nested too deeply: an error by C01 R01.8, not part of the fold
        # steps from the trace
        steps, cur, k = [], None, 0
        accs = []
        outcome = {}
        for c in st.cond:
            if c[0] == "variant" and re.match(r"^run_raw#\d+\(\)$", str(c[3])):
                kk = int(re.search(r"#(\d+)", str(c[3])).group(1))
                if c[2] == "Err":
                    outcome[kk] = "E"
                else:
                    outcome.setdefault(kk, "V")
            if c[0] in ("eq", "ne") and re.search(r"is_truthy\(run_raw#(\d+)\(\)\.Ok\.0\)$", str(c[1])):
                kk = int(re.search(r"run_raw#(\d+)", str(c[1])).group(1))
                outcome[kk] = "F" if c[0] == "eq" else "T"
        for e in st.trace:
            if e[0] != "call":
                continue
            if e[1] == "bind_param":
                m = re.match(r"^e(\d+)$", e[2][-1]) if e[2] else None
                if m:
                    cur = int(m.group(1))
                elif macro == "reduce" and e[2]:
                    m = re.match(r"^run_raw#(\d+)\(\)\.Ok\.0$", e[2][-1])
                    accs.append(int(m.group(1)) if m else e[2][-1])
            elif e[1] == "run_raw":
                k += 1
                blk = e[2][1] if len(e[2]) > 1 else "?"
                m = re.search(r"b(?:c\.\[)?(\d+)\]?$", blk)
                steps.append((cur, int(m.group(1)) if m else blk, outcome.get(k, "?")))
        # result
        m = re.match(r"^(?:Into::into<T><-U|From::from<CelValue><-\w+|CelValue::from_bool)\((0|1)\)$", rr)
        if m:
            res = ("bool", int(m.group(1)))
        elif rr in ("CelValue::true_()", "CelValue::false_()"):
            res = ("bool", 1 if "true" in rr else 0)
        elif re.search(r"run_raw#(\d+)\(\)\.Err\.0\)+$", rr):
            res = ("err", int(re.search(r"run_raw#(\d+)\(\)\.Err\.0", rr).group(1)))
        else:
            m = re.match(r"^(?:Into::into<T><-U|From::from<CelValue><-[\w:<>]+|CelValue::list_of|CelValue::from_list|CelValue::from_val_slice)\(\[(.*)\]\)$", rr)
            if m:
                items = [x.strip() for x in m.group(1).split(",") if x.strip()]
                norm = []
                for x in items:
                    mm = re.match(r"^e(\d+)$", x)
                    m2 = re.match(r"^run_raw#(\d+)\(\)\.Ok\.0$", x)
                    norm.append(("elem", int(mm.group(1))) if mm else ("step", int(m2.group(1))) if m2 else ("?", x))
                res = ("list", tuple(norm))
            elif re.match(r"^run_raw#(\d+)\(\)\.Ok\.0$", rr):
                res = ("step", int(re.match(r"^run_raw#(\d+)", rr).group(1)))
            else:
                res = ("val", rr[:80])
                junk.append(rr[:120])
        if macro == "reduce":
            # the accumulator bound before step i + 1 is the result of step i (the seed is step 1)
            res = (res, tuple(accs))
        out.add((tuple(steps), res))
    return out, junk


def model(macro, n):
    """the defining fold with early exit, over every assignment of outcomes"""
    out = set()
    if macro in ("all", "exists", "exists_one", "filter"):
        alphabet = "TFE"
        for word in itertools.product(alphabet, repeat=n):
            steps, res, count, kept = [], None, 0, []
            for i, o in enumerate(word):
                steps.append((i, 1, o))
                if o == "E":
                    res = ("err", len(steps))
                    break
                if macro == "all" and o == "F":
                    res = ("bool", 0)
                    break
                if macro == "exists" and o == "T":
                    res = ("bool", 1)
                    break
                if macro == "exists_one" and o == "T":
                    count += 1
                    if count > 1:
                        res = ("bool", 0)
                        break
                if macro == "filter" and o == "T":
                    kept.append(("elem", i))
            if res is None:
                res = {"all": ("bool", 1), "exists": ("bool", 0), "exists_one": ("bool", 1 if count == 1 else 0), "filter": ("list", tuple(kept))}[macro]
            out.add((tuple(steps), res))
    elif macro == "map":
        for word in itertools.product("VE", repeat=n):
            steps, res, vals = [], None, []
            for i, o in enumerate(word):
                steps.append((i, 1, o))
                if o == "E":
                    res = ("err", len(steps))
                    break
                vals.append(("step", len(steps)))
            out.add((tuple(steps), res or ("list", tuple(vals))))
    elif macro == "reduce":
        # seed (block 3) V / E, then per element the step (block 2) V / E with the previous result bound as the accumulator
        for word in itertools.product("VE", repeat=n + 1):
            steps, res, accs = [], None, []
            for j, o in enumerate(word):
                if j == 0:
                    steps.append((None, 3, o))
                else:
                    accs.append(len(steps))
                    steps.append((j - 1, 2, o))
                if o == "E":
                    res = ("err", len(steps))
                    break
            out.add((tuple(steps), (res or ("step", len(steps)), tuple(accs))))
    elif macro == "map3":
        # per element: predicate (block 1) T / F / E, then - only when T - the transform (block 2) V / E
        def rec(i, steps, vals):
            if i == n:
                out.add((tuple(steps), ("list", tuple(vals))))
                return
            for p in "TFE":
                s2 = steps + [(i, 1, p)]
                if p == "E":
                    out.add((tuple(s2), ("err", len(s2))))
                elif p == "F":
                    rec(i + 1, s2, vals)
                else:
                    for v in "VE":
                        s3 = s2 + [(i, 2, v)]
                        if v == "E":
                            out.add((tuple(s3), ("err", len(s3))))
                        else:
                            rec(i + 1, s3, vals + [("step", len(s3))])
        rec(0, [], [])
    return out


def describe(row):
    steps, res = row
    word = " ".join("%s(e%s)=%s" % ("p" if b == 1 else "f", i, o) for i, b, o in steps) or "(no body evaluated)"
    return "%s -> %s" % (word, res)
