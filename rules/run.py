#!/usr/bin/env python3
"""Entry point: ./check <property-id> [quick|thorough]
exit 0 = property's structural clauses hold on /repo's working tree (KNOWN-FINDING lines allowed)
exit 1 = VIOLATION line printed
exit 2 = harness failure (repo does not build, facts missing/stale, anchor vanished is exit 1 with a named rule)"""
import importlib, os, sys, traceback
sys.path.insert(0, os.path.dirname(os.path.abspath(__file__)))
import lib


def main():
    if len(sys.argv) < 2:
        print(__doc__)
        return 2
    pid = sys.argv[1]
    tier = sys.argv[2] if len(sys.argv) > 2 else os.environ.get("VERIF_TIER", "quick")
    if tier not in ("quick", "thorough"):
        tier = "quick"
    try:
        mod = importlib.import_module(pid)
    except ModuleNotFoundError:
        print("no rule module for", pid)
        return 2
    chk = lib.Check(pid, tier)
    try:
        return mod.run(chk, tier)
    except lib.MissingAnchor as e:
        # an anchor the rules are written against no longer exists: fail closed, named
        chk.bad("anchor", "missing", "anchor not found: %s" % e)
        return chk.finish("anchor missing - fail closed", [], [], exhaustive=False)
    except SystemExit:
        raise
    except Exception as e:
        # a rule met a construct it cannot interpret: that is not a verdict about the property, but the clause can no longer
        # be decided on this tree - fail closed and say so
        tb = traceback.format_exc()
        sys.stderr.write(tb)
        chk.bad("undecided", "rule evaluation failed", "the rule evaluator could not interpret the current tree (fail closed): %s: %s" % (type(e).__name__, e), tb.strip().splitlines()[-3].strip() if tb else "")
        return chk.finish("rule evaluation failed - fail closed", [], [], exhaustive=False)


if __name__ == "__main__":
    sys.exit(main())
