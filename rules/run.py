#!/usr/bin/env python3
"""Entry point: ./check <property-id> [quick|thorough]
exit 0 = property's structural clauses hold on /repo's working tree (KNOWN-FINDING lines allowed)
exit 1 = VIOLATION line printed
exit 2 = harness failure (repo does not build, facts missing/stale, anchor vanished is exit 1 with a named rule)"""
import importlib, os, sys, traceback
sys.path.insert(0, os.path.dirname(os.path.abspath(__file__)))
import lib


# checks that are re-run with deeper loop unrolling / on the no-default-features build in the thorough tier
DEEP_CHECKS = {"C02", "C05", "C06", "C09", "C10", "C14", "C17", "C18"}
NODEFAULT_CHECKS = {"C02", "C09", "C10", "C17", "C18"}


def main():
    if len(sys.argv) < 2:
        print(__doc__)
        return 2
    pid = sys.argv[1]
    tier = sys.argv[2] if len(sys.argv) > 2 else os.environ.get("VERIF_TIER", "quick")
    if tier not in ("quick", "thorough"):
        tier = "quick"
    try:
        mod = importlib.import_module(pid)
    except ModuleNotFoundError:
        print("no rule module for", pid)
        return 2
    chk = lib.Check(pid, tier)
    # thorough tier: the template-based checks run a second time with one more loop unrolling everywhere, and the checks whose
    # rules do not depend on the feature set run once more on `--no-default-features` (the other cfg!() arms of or / and / TEST /
    # the ternary fold / negative indexing)
    passes = [("default", False)]
    if tier == "thorough":
        if pid in DEEP_CHECKS:
            passes.append(("default", True))
        if pid in NODEFAULT_CHECKS:
            passes.append(("nodefault", False))
    try:
        if len(passes) == 1:
            return mod.run(chk, tier)
        chk.defer = True
        for cfg, deep in passes:
            os.environ["VERIF_CONFIG"] = cfg
            os.environ["VERIF_DEEP"] = "1" if deep else "0"
            for m in ("ctemplates", "tplrules", "semtables"):
                if m in sys.modules:
                    importlib.reload(sys.modules[m])
            chk.prefix = "" if (cfg, deep) == ("default", False) else "[%s%s] " % ("no-default-features" if cfg == "nodefault" else "default", ", deep" if deep else "")
            chk.passes.append({"config": cfg, "deep_unrolling": deep})
            mod.run(chk, tier)
        chk.defer = False
        return chk.finalize()
    except lib.MissingAnchor as e:
        # an anchor the rules are written against no longer exists: fail closed, named
        chk.bad("anchor", "missing", "anchor not found: %s" % e)
        return chk.finish("anchor missing - fail closed", [], [], exhaustive=False)
    except SystemExit:
        raise
    except Exception as e:
        # a rule met a construct it cannot interpret: that is not a verdict about the property, but the clause can no longer
        # be decided on this tree - fail closed and say so
        tb = traceback.format_exc()
        sys.stderr.write(tb)
        chk.bad("undecided", "rule evaluation failed", "the rule evaluator could not interpret the current tree (fail closed): %s: %s" % (type(e).__name__, e), tb.strip().splitlines()[-3].strip() if tb else "")
        return chk.finish("rule evaluation failed - fail closed", [], [], exhaustive=False)


if __name__ == "__main__":
    sys.exit(main())
