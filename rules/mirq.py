"""Structural queries over one MIR body (facts JSON): definitions, value origins,
Option/Result edges, edge-cut reachability, discriminant switches and their arm regions.
All helpers are conservative: when a shape is not recognised they return None / empty and
the calling rule fails closed."""
import re, collections
import lib

TRANSPARENT = re.compile(
    r"(?:::Deref>::deref|::DerefMut>::deref_mut|::Clone>::clone|::Borrow<.*>>::borrow|::AsRef<.*>>::as_ref"
    r"|String::as_str|::as_slice|::as_ref$|::to_owned$|::ToOwned>::to_owned|::Into<.*>>::into|::From<.*>>::from"
    r"|::as_bytes$|::to_string$|::ToString>::to_string|::as_mut_slice|::IntoIterator>::into_iter|::iter$|::as_value$)")


class BodyQ:
    def __init__(self, b):
        self.b = b
        self._defs = None

    # ---------------------------------------------------------------- definitions
    def defs(self):
        """local -> list of (blk, kind, payload): kind 'assign' (payload rv, place), 'call' (payload terminator)"""
        if self._defs is None:
            d = collections.defaultdict(list)
            for i, blk in enumerate(self.b.blocks):
                if blk.get("cleanup"):
                    continue
                for s in blk["stmts"]:
                    if s["k"] == "assign":
                        d[s["place"]["l"]].append((i, "assign", s))
                t = blk["term"]
                if t and t["k"] == "call":
                    d[t["dest"]["l"]].append((i, "call", t))
            self._defs = d
        return self._defs

    def single_def(self, l, whole=True):
        ds = [x for x in self.defs().get(l, []) if (not whole) or "p" not in (x[2]["place"] if x[1] == "assign" else x[2]["dest"])]
        # ignore drop-flag style re-initialisations of the same constant
        return ds[0] if len(ds) == 1 else None

    def origin(self, op, depth=0, through_calls=True):
        """Follow an operand back to where its value comes from.
        returns ('param', idx, projs) | ('local', l, projs) | ('const', c) | ('call', path, terminator, blk) | ('agg', rv) | ('unknown',)"""
        if depth > 40:
            return ("unknown",)
        if "const" in op:
            return ("const", op["const"])
        p = lib.op_place(op)
        if p is None:
            return ("unknown",)
        return self.place_origin(p, depth, through_calls)

    def place_origin(self, p, depth=0, through_calls=True):
        l = p["l"]
        projs = list(p.get("p", []))
        if 1 <= l <= self.b.d["arg_count"]:
            return ("param", l, projs)
        d = self.single_def(l)
        if d is None:
            return ("local", l, projs)
        blk, kind, x = d
        if kind == "assign":
            rv = x["rv"]
            k = rv["k"]
            if k == "use":
                o = self.origin(rv["op"], depth + 1, through_calls)
                return self._add_projs(o, projs)
            if k == "ref" or k == "rawptr":
                o = self.place_origin(rv["place"], depth + 1, through_calls)
                # &place then (*x): the deref cancels the ref
                if projs and projs[0] == "deref":
                    return self._add_projs(o, projs[1:])
                return self._add_projs(o, projs)
            if k == "cast":
                o = self.origin(rv["op"], depth + 1, through_calls)
                return self._add_projs(o, projs)
            if k == "agg":
                return ("agg", rv, blk)
            return ("local", l, projs)
        # call
        rid, path, c = lib.callee_of(x)
        if through_calls and rid is not None and TRANSPARENT.search(path) and x["args"]:
            o = self.origin(x["args"][0], depth + 1, through_calls)
            return o
        return ("call", path, x, blk)

    @staticmethod
    def _add_projs(o, projs):
        if not projs:
            return o
        if o[0] in ("param", "local"):
            pr = list(o[2])
            for e in projs:
                if e == "deref" and pr and pr[-1] == "ref":
                    pr.pop()
                else:
                    pr.append(e)
            return (o[0], o[1], pr)
        return o

    def root_param(self, op):
        """index (1-based local) of the parameter an operand is derived from, through refs, derefs,
        field projections and transparent conversions; None if it is not derived from a parameter"""
        o = self.origin(op)
        if o[0] == "param":
            return o[1]
        if o[0] == "local":
            # multiple defs (e.g. match bindings): try each def
            roots = set()
            for blk, kind, x in self.defs().get(o[1], []):
                if kind == "assign" and x["rv"]["k"] in ("use", "ref", "cast"):
                    src = x["rv"].get("op") or {"copy": x["rv"]["place"]}
                    r = self.root_param(src) if src != op else None
                    roots.add(r)
                else:
                    roots.add(None)
            if len(roots) == 1:
                return roots.pop()
        return None

    # ---------------------------------------------------------------- calls
    def call_sites(self, regex):
        r = re.compile(regex)
        out = []
        for i, t in self.b.calls():
            rid, path, c = lib.callee_of(t)
            if rid is not None and r.search(path):
                out.append((i, t, path))
        return out

    # ---------------------------------------------------------------- reachability
    def reach(self, start, cut_edges=(), blocked=()):
        cut = set(cut_edges)
        blocked = set(blocked)
        seen = set()
        st = [start]
        while st:
            x = st.pop()
            if x in seen or x in blocked:
                continue
            seen.add(x)
            for y in self.b.succs(x):
                if (x, y) not in cut:
                    st.append(y)
        return seen

    def discr_switch_of(self, local, after_blk):
        """the switch that tests discriminant(local) (possibly through a field/downcast-free copy), searched from after_blk forward
        along straight-line code. returns (switch_blk, terminator) or None"""
        seen = set()
        cur = after_blk
        for _ in range(12):
            if cur in seen:
                return None
            seen.add(cur)
            blk = self.b.blocks[cur]
            dl = None
            for s in blk["stmts"]:
                if s["k"] == "assign" and s["rv"]["k"] == "discr" and s["rv"]["place"]["l"] == local and "p" not in s["rv"]["place"]:
                    dl = s["place"]["l"]
            t = blk["term"]
            if t and t["k"] == "switch" and dl is not None and lib.op_local(t["discr"]) == dl:
                return cur, t
            succ = self.b.succs(cur)
            if len(succ) != 1:
                break
            cur = succ[0]
        # not on the straight line (another test sits in between): the one switch on discriminant(local) that after_blk dominates
        found = []
        for i, blk in enumerate(self.b.blocks):
            if blk.get("cleanup"):
                continue
            dl = None
            for s in blk["stmts"]:
                if s["k"] == "assign" and s["rv"]["k"] == "discr" and s["rv"]["place"]["l"] == local and "p" not in s["rv"]["place"]:
                    dl = s["place"]["l"]
            t = blk["term"]
            if t and t["k"] == "switch" and dl is not None and lib.op_local(t["discr"]) == dl and self.b.dominates(after_blk, i):
                found.append((i, t))
        if len(found) > 1:
            # drop elaboration tests the discriminant again on the way out: the test proper dominates those
            found = [f for f in found if all(f[0] == g[0] or self.b.dominates(f[0], g[0]) for g in found)]
        return found[0] if len(found) == 1 else None

    def option_edges(self, call_blk):
        """for a call whose destination is an Option<..>/Result<..>: (switch_blk, {variant_index: target}, otherwise)"""
        t = self.b.blocks[call_blk]["term"]
        dest = t["dest"]
        if "p" in dest or t["t"] is None:
            return None
        sw = self.discr_switch_of(dest["l"], t["t"])
        if sw is None:
            return None
        sblk, st = sw
        return sblk, {int(c[0]): c[1] for c in st["cases"]}, st["otherwise"]

    def none_edge(self, call_blk):
        """(switch_blk, none_target, some_target) for an Option-returning call"""
        oe = self.option_edges(call_blk)
        if oe is None:
            return None
        sblk, cases, other = oe
        if 0 in cases and 1 in cases:
            return sblk, cases[0], cases[1]
        if 1 in cases:
            return sblk, other, cases[1]
        if 0 in cases:
            return sblk, cases[0], other
        return None

    def variant_edges(self, call_blk):
        """{'Some'|'None'|'Ok'|'Err': target block} for a call returning Option / Result, plus '_switch': block"""
        t = self.b.blocks[call_blk]["term"]
        oe = self.option_edges(call_blk)
        if oe is None:
            return None
        sblk, cases, other = oe
        dty = t.get("dty", "")
        if dty.startswith("std::option::Option<"):
            names = {0: "None", 1: "Some"}
        elif dty.startswith("std::result::Result<"):
            names = {0: "Ok", 1: "Err"}
        else:
            return None
        out = {"_switch": sblk}
        for k, nm in names.items():
            out[nm] = cases.get(k, other)
        return out

    # ---------------------------------------------------------------- discriminant switches
    def switches_on(self, facts, adt_path):
        """switch terminators whose operand is discriminant(<place of type adt_path (or & to it)>):
        returns list of (blk, place, {variant name: target}, otherwise)"""
        adt = [a for a in facts.adts.values() if a["path"] == adt_path]
        if not adt:
            raise lib.MissingAnchor("ADT %s" % adt_path)
        names = {int(v["discr"]): v["name"] for v in adt[0]["variants"]}
        dl = {}
        for i, s in self.b.stmts():
            if s["k"] == "assign" and s["rv"]["k"] == "discr" and s["rv"].get("ty", "").replace("&", "").strip().startswith(adt_path) and "p" not in s["place"]:
                dl[(i, s["place"]["l"])] = s["rv"]["place"]
        out = []
        for i, t in self.b.terms("switch"):
            l = lib.op_local(t["discr"])
            if (i, l) in dl:
                out.append((i, dl[(i, l)], {names.get(int(c[0]), c[0]): c[1] for c in t["cases"]}, t["otherwise"]))
        return out

    def arm_region(self, switch_blk, target, extra_blocked=()):
        """blocks reachable from an arm target without passing again through the blocks that dominate the switch
        (i.e. one loop iteration / one dispatch)"""
        dom = self.b.dominators().get(switch_blk, {switch_blk})
        return self.reach(target, blocked=set(dom) | set(extra_blocked))

    def exclusive_region(self, switch_blk, target, all_targets):
        """blocks reachable from this arm but from no other arm of the same switch"""
        mine = self.arm_region(switch_blk, target)
        others = set()
        for t in set(all_targets):
            if t != target:
                others |= self.arm_region(switch_blk, t)
        return mine - others

    # ---------------------------------------------------------------- misc
    def aggregates(self, blocks=None, adt_suffix=None):
        out = []
        for i, s in self.b.stmts():
            if blocks is not None and i not in blocks:
                continue
            if s["k"] == "assign" and s["rv"]["k"] == "agg" and s["rv"].get("ak") == "adt":
                if adt_suffix is None or s["rv"]["adt"].endswith(adt_suffix):
                    out.append((i, s["rv"]["adt"].split("::")[-1], s["rv"]["variant"], s))
        return out

    def calls_in(self, blocks):
        out = []
        for i, t in self.b.calls():
            if i in blocks:
                rid, path, c = lib.callee_of(t)
                out.append((i, path if rid is not None else "<indirect %s>" % t.get("fty", "?"), t))
        return out

    def moved_locals(self):
        """locals that appear as `move _l` (whole local) in any operand"""
        out = set()
        for i, blk in enumerate(self.b.blocks):
            if blk.get("cleanup"):
                continue
            for it in list(blk["stmts"]) + ([blk["term"]] if blk["term"] else []):
                for o in lib.iter_operands(it):
                    if "move" in o and "p" not in o["move"]:
                        out.add(o["move"]["l"])
        return out

    def const_compares(self, blocks=None, include_expansion=True):
        """integer comparisons with a constant operand: (blk, op, const, aty, other_operand)"""
        out = []
        for i, s in self.b.stmts():
            if blocks is not None and i not in blocks:
                continue
            rv = s.get("rv", {})
            if s.get("exp") and not include_expansion:
                continue
            if rv.get("k") == "binop" and rv["op"] in ("Eq", "Ne", "Lt", "Le", "Gt", "Ge"):
                ca, cb = lib.op_const_int(rv["a"]), lib.op_const_int(rv["b"])
                if cb is not None:
                    out.append((i, rv["op"], cb, rv["aty"], rv["a"]))
                elif ca is not None:
                    flip = {"Lt": "Gt", "Le": "Ge", "Gt": "Lt", "Ge": "Le", "Eq": "Eq", "Ne": "Ne"}[rv["op"]]
                    out.append((i, flip, ca, rv["aty"], rv["b"]))
        return out


# ---------------------------------------------------------------------------- expression trees
PLUMBING = re.compile(
    r"(?:::Try>::branch|::FromResidual<.*>>::from_residual|alloc::alloc::exchange_malloc|::into_vec$|::must_use$|core::fmt::|alloc::fmt::format|"
    r"std::fmt::|::Iterator>::collect|::Iterator>::map$|Iterator::map$|Iterator::collect$|::into_owned$|::Iterator>::next$|::unwrap_or_default$)")


def _split_top(path):
    out, depth, cur = [], 0, ""
    i = 0
    while i < len(path):
        ch = path[i]
        if ch == "<":
            depth += 1
        elif ch == ">":
            depth -= 1
        if ch == ":" and depth == 0 and path[i:i + 2] == "::":
            out.append(cur)
            cur = ""
            i += 2
            continue
        cur += ch
        i += 1
    out.append(cur)
    return out


def _strip_generics(seg):
    out, depth = "", 0
    for ch in seg:
        if ch == "<":
            depth += 1
        elif ch == ">":
            depth -= 1
        elif depth == 0:
            out += ch
    return out


TYPE_SEGS = {"str", "f64", "f32", "i64", "u64", "i32", "u32", "usize", "isize", "num", "slice", "char"}


def short_callee(path, c=None):
    """`regex::regex::string::Regex::new` -> `Regex::new`; `<DateTime<Tz> as Datelike>::weekday` -> `Datelike::weekday`;
    `core::str::<impl str>::contains` -> `str::contains`; `core::num::<impl i64>::checked_abs` -> `i64::checked_abs`"""
    m = re.match(r"^<(.+) as ([^<>]+?)(<.*>)?>::(\w+)$", path)
    if m:
        tr = m.group(2).split("::")[-1]
        if tr in ("TryFrom", "From", "Into", "FromStr", "TryInto"):
            ty = _strip_generics(m.group(1)).split("::")[-1]
            garg = (m.group(3) or "").strip("<>").split("::")[-1]
            return "%s::%s<%s>%s" % (tr, m.group(4), ty, ("<-" + garg) if garg else "")
        return "%s::%s" % (tr, m.group(4))
    segs = _split_top(path)
    segs2 = []
    for sg in segs:
        mi = re.match(r"^<impl (.+)>$", sg)
        if mi:
            inner = mi.group(1)
            mt = re.match(r"^(?:std|core)::convert::(TryFrom|From)<(.+)> for (.+)$", inner)
            if mt:
                segs2.append("%s<%s<-%s>" % (mt.group(1), mt.group(3).split("::")[-1], mt.group(2).split("::")[-1]))
            else:
                segs2.append(_strip_generics(inner).replace("[T]", "slice").split("::")[-1].strip())
        else:
            segs2.append(_strip_generics(sg))
    segs2 = [x for x in segs2 if x]
    if len(segs2) >= 2 and (segs2[-2][:1].isupper() or segs2[-2] in TYPE_SEGS or "<" in segs2[-2]):
        return segs2[-2] + "::" + segs2[-1]
    return segs2[-1]


NAMES = {}


def expr_named(q, op, names):
    """expr_of with some locals replaced by symbolic names ({local: name})"""
    global NAMES
    old = NAMES
    NAMES = names
    try:
        return expr_of(q, op)
    finally:
        NAMES = old


def expr_of(q, op, depth=0, seen=None):
    """Symbolic expression of an operand in terms of the function's parameters (p1, p2, ..), constants and calls.
    Transparent conversions (deref, clone, into, as_str, to_owned ..) are skipped."""
    if depth > 25:
        return "?"
    if "const" in op:
        c = op["const"]
        if "int" in c:
            return c["int"]
        if "fn" in c:
            return "fn " + short_callee(c.get("res_path", c["fn_path"]))
        return c.get("repr", "const")[:40]
    p = lib.op_place(op)
    if p is None:
        return "?"
    return place_expr(q, p, depth, seen)


def place_expr(q, p, depth=0, seen=None):
    seen = seen or set()
    l = p["l"]
    if l in NAMES and "p" not in p:
        return NAMES[l]
    projs = [e for e in p.get("p", []) if e != "deref"]
    sfx = ""
    for e in projs:
        if not isinstance(e, dict):
            continue
        if "f" in e:
            sfx += ".%s" % e["f"]
        elif "dc" in e:
            sfx += ".%s" % e["dc"]
        elif "idx" in e:
            sfx += "[%s]" % place_expr(q, {"l": e["idx"]}, depth + 1, seen)
        elif "cidx" in e:
            sfx += "[%s%d]" % ("-" if e.get("from_end") else "", e["cidx"])
    if l in NAMES:
        return NAMES[l] + sfx
    if 1 <= l <= q.b.d["arg_count"]:
        return "p%d%s" % (l, sfx)
    if l in seen:
        return "_%d" % l
    seen = seen | {l}
    ds = [x for x in q.defs().get(l, [])]
    whole = [x for x in ds if "p" not in (x[2]["place"] if x[1] == "assign" else x[2]["dest"])]
    if len(whole) != 1:
        if len(whole) > 1:
            es = sorted(set(_def_expr(q, x, depth, seen) for x in whole))
            if len(es) == 1:
                return es[0] + sfx
            return "phi(" + " | ".join(es[:6]) + ")" + sfx
        return "_%d%s" % (l, sfx)
    return _def_expr(q, whole[0], depth, seen) + sfx


def _def_expr(q, d, depth, seen):
    blk, kind, x = d
    if kind == "assign":
        rv = x["rv"]
        k = rv["k"]
        if k == "use":
            return expr_of(q, rv["op"], depth + 1, seen)
        if k in ("ref", "rawptr"):
            return place_expr(q, rv["place"], depth + 1, seen)
        if k == "cast":
            if rv["ck"].startswith(("IntToInt", "FloatToInt", "IntToFloat", "FloatToFloat")):
                return "(%s as %s)" % (expr_of(q, rv["op"], depth + 1, seen), rv["to"])
            return expr_of(q, rv["op"], depth + 1, seen)
        if k == "binop":
            return "%s(%s, %s)" % (rv["op"], expr_of(q, rv["a"], depth + 1, seen), expr_of(q, rv["b"], depth + 1, seen))
        if k == "unop":
            return "%s(%s)" % (rv["op"], expr_of(q, rv["a"], depth + 1, seen))
        if k == "agg":
            nm = rv["ak"]
            if nm == "adt":
                nm = rv["adt"].split("::")[-1] + "::" + rv["variant"]
            elif nm == "closure":
                nm = "closure#" + rv["def"].rsplit("#", 1)[-1].rstrip("}")
            return "%s{%s}" % (nm, ", ".join(expr_of(q, o, depth + 1, seen) for o in rv["ops"]))
        if k == "discr":
            return "discr(%s)" % place_expr(q, rv["place"], depth + 1, seen)
        return k
    rid, path, c = lib.callee_of(x)
    if rid is None:
        return "indirect(%s)" % ", ".join(expr_of(q, a, depth + 1, seen) for a in x["args"])
    if TRANSPARENT.search(path) and x["args"]:
        return expr_of(q, x["args"][0], depth + 1, seen)
    return "%s%s(%s)" % (short_callee(path), _targ(path, c), ", ".join(expr_of(q, a, depth + 1, seen) for a in x["args"]))


def _targ(path, c):
    """target type of the conversions whose meaning is their type argument (str::parse::<T>)"""
    if c and re.search(r"str>::parse$|::str::<impl str>::parse$", path):
        g = c.get("gargs") or []
        if g:
            return "<%s>" % g[-1].split("::")[-1]
    return ""


def call_exprs(q, keep=None, drop=PLUMBING):
    """one expression string per non-transparent call of the body (optionally only callees matching `keep`)"""
    out = []
    for i, t in q.b.calls():
        rid, path, c = lib.callee_of(t)
        if rid is None:
            out.append("indirect(%s)" % ", ".join(expr_of(q, a) for a in t["args"]))
            continue
        if TRANSPARENT.search(path) or (drop is not None and drop.search(path)):
            continue
        if keep is not None and not keep.search(path):
            continue
        out.append("%s%s(%s)" % (short_callee(path), _targ(path, c), ", ".join(expr_of(q, a) for a in t["args"])))
    return out
