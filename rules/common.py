"""helpers shared by the per-property rule modules"""
import re, collections
import lib


def casts_of(b, kinds=("IntToInt", "FloatToInt", "IntToFloat")):
    out = collections.Counter()
    for i, s in b.stmts():
        rv = s.get("rv", {})
        if rv.get("k") == "cast" and rv["ck"].startswith(kinds):
            if isinstance(rv.get("op"), dict) and "const" in rv["op"]:
                continue          # a constant converted at compile time is a constant of the target type, not a conversion of a value
            out[(rv["ck"].split("(")[0], rv["from"], rv["to"])] += 1
    return out


def callees_of(b):
    out = collections.Counter()
    for i, t in b.calls():
        rid, path, c = lib.callee_of(t)
        if rid is not None:
            out[path] += 1
    return out


def asserts_of(b):
    out = []
    for i, t in b.terms("assert"):
        m = t["msg"]
        if m["ak"] != "Other":
            out.append((i, m["ak"], m.get("op"), m.get("ty"), t))
    return out


def with_closures(F, body):
    return [body] + F.closures_of(body)


def with_private_callees(F, body, depth=3):
    """the body, its closures and - transitively - the module-private functions it calls (helpers split off for readability belong to it)"""
    out, seen, work = [], set(), [(body, 0)]
    while work:
        b, d = work.pop()
        if b.id in seen:
            continue
        seen.add(b.id)
        out.append(b)
        for c in F.closures_of(b):
            work.append((c, d))
        if d >= depth:
            continue
        for i, t in b.calls():
            rid = lib.callee_of(t)[0]
            cb = F.bodies.get(rid)
            if cb is not None and cb.pkg == body.pkg and str(cb.d.get("vis", "")).startswith("Restricted") and "DefId(0:0 " not in str(cb.d.get("vis", "")):
                work.append((cb, d + 1))
        # function items passed as values (fn pointers to private helpers) are not followed: only direct calls
    return out


def zero_test_dominates(b, blk, ty):
    for j, s in b.stmts():
        rv = s.get("rv", {})
        if rv.get("k") == "binop" and rv["op"] in ("Eq", "Ne") and rv.get("aty") == ty and (lib.op_const_int(rv["b"]) == 0 or lib.op_const_int(rv["a"]) == 0):
            if b.dominates(j, blk) and j != blk:
                return True
    return False


LOSSY_INT = {("i64", "u64"), ("u64", "i64"), ("i64", "u32"), ("u64", "u32"), ("i64", "i32"), ("u64", "i32"), ("i64", "usize"), ("usize", "i64"),
             ("u64", "usize"), ("isize", "usize"), ("i64", "isize"), ("i128", "i64"), ("u128", "u64"), ("i64", "u8"), ("u64", "u8"), ("u32", "i32"), ("i32", "u64"), ("i32", "u32")}


def check_casts(chk, rule, b, allowed, why_bad):
    """every int/float cast in b must be in `allowed` {(from,to): reason}"""
    for (ck, fr, to), n in sorted(casts_of(b).items()):
        key = "%s|cast %s->%s" % (b.path, fr, to)
        if (fr, to) in allowed:
            chk.ok(rule, key, allowed[(fr, to)])
        else:
            chk.bad(rule, key, "%s: `as` cast %s -> %s (%s) x%d in %s" % (why_bad, fr, to, ck, n, b.path), b.file)


def forbid_calls(chk, rule, b, regex, why):
    for p, n in callees_of(b).items():
        if re.search(regex, p):
            chk.bad(rule, "%s|calls %s" % (b.path, lib.short(p)), "%s: %s calls %s" % (why, b.path, p), b.file)


def callees_g(b):
    """resolved callee paths with their generic arguments appended: `path<A, B>`"""
    out = collections.Counter()
    for i, t in b.calls():
        rid, path, c = lib.callee_of(t)
        if rid is not None:
            out[path + "<" + ", ".join(c.get("gargs", [])) + ">"] += 1
    return out


# ---------------------------------------------------------------------------- #[dispatch] tables
TYPE2VARIANT = [(r"^i64$", "Int"), (r"^u64$", "UInt"), (r"^f64$", "Float"), (r"^bool$", "Bool"), (r"^std::string::String$", "String"),
                (r"cel_bytes::CelBytes$", "Bytes"), (r"^std::vec::Vec<rscel::types::cel_value::CelValue>$", "List"),
                (r"^std::collections::HashMap<", "Map"), (r"^chrono::DateTime<", "TimeStamp"), (r"^chrono::(TimeDelta|Duration)$", "Duration"),
                (r"^rscel::types::cel_value::CelValue$", "*")]


def variant_of_type(ty):
    for rx, v in TYPE2VARIANT:
        if re.search(rx, ty):
            return v
    return "?" + ty


def dispatch_table(F, b):
    """for a #[dispatch]-generated `dispatch` body: (tuple width, [(overload path, [variant required per tuple slot or '*'])])"""
    import mirq
    q = mirq.BodyQ(b)
    cv = [a for a in F.adts.values() if a["path"] == "rscel::types::cel_value::CelValue" and a["pkg"] == "rscel"][0]
    names = {int(v["discr"]): v["name"] for v in cv["variants"]}
    # the matched tuple: aggregate of (this, a0, ..) whose fields are switched on
    tup = None
    width = 0
    for i, s in b.stmts():
        rv = s.get("rv", {})
        if rv.get("k") == "agg" and rv.get("ak") == "tuple" and len(rv["ops"]) >= 1 and "p" not in s["place"]:
            if b.local_ty(s["place"]["l"]).startswith("(rscel::types::cel_value::CelValue"):
                tup, width = s["place"]["l"], len(rv["ops"])
    if tup is None:
        return None
    # switches on discriminant(tup.k)
    sw = {}
    for i, s in b.stmts():
        rv = s.get("rv", {})
        if rv.get("k") == "discr" and rv["place"]["l"] == tup and rv["place"].get("p") and isinstance(rv["place"]["p"][0], dict) and "f" in rv["place"]["p"][0] and len(rv["place"]["p"]) == 1:
            t = b.blocks[i]["term"]
            if t and t["k"] == "switch" and lib.op_local(t["discr"]) == s["place"]["l"]:
                sw[i] = (rv["place"]["p"][0]["f"], {int(c[0]): c[1] for c in t["cases"]}, t["otherwise"])
    rows = []
    mod = b.path.rsplit("::", 1)[0]
    for i, t in b.calls():
        rid, path, c = lib.callee_of(t)
        if rid is None or not path.startswith(mod + "::") or path == b.path or "{closure" in path:
            continue
        slots = ["*"] * width
        for sb, (k, cases, other) in sw.items():
            if not b.dominates(sb, i):
                continue
            hit = [cvv for cvv, tgt in cases.items() if tgt == i or b.dominates(tgt, i)]
            via_other = (other == i or b.dominates(other, i)) and other not in cases.values()
            if len(hit) == 1 and not via_other:
                slots[k] = names.get(hit[0], str(hit[0]))
            elif hit:
                slots[k] = "|".join(sorted(names.get(h, str(h)) for h in hit))
        rows.append((path, slots))
    return width, rows


def expected_slots(F, callee_path, width):
    bs = [x for x in F.by_path.get(callee_path, []) if x.pkg == "rscel"]
    if len(bs) != 1:
        return None
    cb = bs[0]
    n = cb.d["arg_count"]
    tys = [cb.local_ty(i) for i in range(1, n + 1)]
    has_this = n >= 1 and cb.dbg_name(1) == "this"
    exp = []
    if has_this:
        exp.append(variant_of_type(tys[0]))
        rest = tys[1:]
    else:
        exp.append("Null")
        rest = tys
    exp += [variant_of_type(t) for t in rest]
    while len(exp) < width:
        exp.append("Null")
    return exp


# ------------------------------------------------------------------------------------ rows of primitive calls, invariant under helper extraction

def _split_top(txt):
    out, depth, cur = [], 0, ""
    for ch in txt:
        if ch in "([{":
            depth += 1
        elif ch in ")]}":
            depth -= 1
        if ch == "," and depth == 0:
            out.append(cur.strip())
            cur = ""
        else:
            cur += ch
    if cur.strip():
        out.append(cur.strip())
    return out


def _subst_params(expr, args):
    def rep(m):
        k = int(m.group(1)) - 1
        return args[k] if k < len(args) else m.group(0)
    return re.sub(r"\bp(\d+)\b", rep, expr)


def normal_row(F, b, dropped, cmp_types=None, depth=0):
    """{"calls": [...], "casts": [...], "cmp": [...]} of a function in a form that does not change when code moves into one of its closures or
    into a module-private helper: call expressions of closures (captured values resolved to what was captured) and of private helpers (parameters
    replaced by the arguments of each call) are folded into the function's own row; the helper call itself disappears."""
    import mirq
    q = mirq.BodyQ(b)
    calls, casts, cmps = [], [], []
    casts.extend("%s->%s" % (fr, to) for (ck, fr, to), n in casts_of(b).items() for _ in range(n))
    if cmp_types:
        cmps.extend("%s %s %d" % (aty, op, c) for (_, op, c, aty, _o) in q.const_compares(include_expansion=False) if aty in cmp_types)
    caps = {}
    for i_, st_ in b.stmts():
        rv_ = st_.get("rv", {})
        if rv_.get("k") == "agg" and rv_.get("ak") == "closure":
            caps[str(rv_.get("def") or "").split("::")[-1]] = [mirq.expr_of(q, o_) for o_ in rv_["ops"]]
    helpers = {}
    for i_, t_ in b.calls():
        rid = lib.callee_of(t_)[0]
        cb = F.bodies.get(rid)
        if cb is not None and cb.pkg == b.pkg and "{closure" not in cb.path and str(cb.d.get("vis", "")).startswith("Restricted") \
                and "DefId(0:0 " not in str(cb.d.get("vis", "")) and cb.id != b.id and depth < 3:
            helpers.setdefault(rid, []).append([mirq.expr_of(q, a_) for a_ in t_.get("args", [])])
    helper_heads = set(mirq.short_callee(F.bodies[h].path) for h in helpers)
    for e in mirq.call_exprs(q, drop=None):
        head = e.split("(", 1)[0]
        if head in helper_heads:
            continue
        calls.append(e)
    for rid, sites in helpers.items():
        sub = normal_row(F, F.bodies[rid], dropped, cmp_types, depth + 1)
        for args in sites:
            calls.extend(_subst_params(e, args) for e in sub["calls"])
        casts.extend(sub["casts"])
        cmps.extend(sub["cmp"])
    for c in F.closures_of(b):
        if c.path.count("{closure") != b.path.count("{closure") + 1:
            continue
        sub = normal_row(F, c, dropped, cmp_types, depth)
        cname = c.path.split("::")[-1]
        cap = caps.get(cname, [])

        def uncapture(e):
            return re.sub(r"(?:\(\*p1\)|\bp1)\.(\d+)\b", lambda m: cap[int(m.group(1))] if int(m.group(1)) < len(cap) else m.group(0), e)
        # the closure's own parameters (what a combinator hands it: the payload of a result, an element) are written `_`
        calls.extend(re.sub(r"\bp[2-9]\b", "_", uncapture(e)) for e in sub["calls"])
        casts.extend(sub["casts"])
        cmps.extend(sub["cmp"])
    calls = [e for e in calls if not dropped(e)]
    return {"calls": sorted(calls), "casts": sorted(casts), "cmp": sorted(cmps)}


def root_bodies(F, bodies):
    """of the given bodies: those that are neither closures nor module-private helpers called by another of them (their rows are folded into the callers)"""
    ids = {b.id for b in bodies}
    called = set()
    for b in bodies:
        for i_, t_ in b.calls():
            rid = lib.callee_of(t_)[0]
            cb = F.bodies.get(rid)
            if cb is not None and rid in ids and rid != b.id and str(cb.d.get("vis", "")).startswith("Restricted") and "DefId(0:0 " not in str(cb.d.get("vis", "")):
                called.add(rid)
    return [b for b in bodies if "{closure" not in b.path and b.id not in called]


def payload_blind(e):
    """a call expression with every `<call>(..).Ok.0 / .Some.0 / .Continue.0` sub-expression (the payload of an earlier result) written `_`:
    the same value reaches a callee whether it is matched out of the result by hand or handed over by a combinator's closure"""
    for _ in range(40):
        m = re.search(r"\)(\.(?:Ok|Some|Continue)\.0)+", e)
        if not m:
            break
        close = m.start()
        depth, k = 0, close
        while k >= 0:
            if e[k] == ")":
                depth += 1
            elif e[k] == "(":
                depth -= 1
                if depth == 0:
                    break
            k -= 1
        if k < 0:
            break
        k2 = k
        while k2 > 0 and (e[k2 - 1].isalnum() or e[k2 - 1] in "_:<>&'!"):
            k2 -= 1
        e = e[:k2] + "_" + e[m.end():]
    return re.sub(r"_(\.(?:Ok|Some|Continue)\.0)+", "_", e)


def parser_nesting_inherited(chk, F, RULE, guard_prim, consequence):
    """every CelCompiler created inside a parse function receives its creator's nesting counter before it is used (shared by C01 R01.6 and C19 R19.9)"""
    import re
    cc_adt = F.adts.get("rscel::compiler::compiler::CelCompiler")
    nest_idx = None
    if cc_adt:
        # the depth counter is the field of the parser that the guard (enter_nested) writes - whatever it is called
        en_b = F.body(guard_prim)
        written = set()
        for i_, st_ in en_b.stmts():
            pl_ = st_.get("place", {})
            if st_.get("k") == "assign" and pl_.get("l") == 1 and pl_.get("p") and pl_["p"][0] == "deref" and len(pl_["p"]) == 2 and isinstance(pl_["p"][1], dict) and "f" in pl_["p"][1]:
                written.add(pl_["p"][1]["f"])
        if len(written) == 1:
            nest_idx = written.pop()
    if nest_idx is None:
        chk.bad(RULE, "anchor|CelCompiler.nesting", "the guard (enter_nested) no longer keeps its count in exactly one field of the parser: the depth guard's state is gone", "rscel/src/compiler/compiler.rs")
    n_created = 0
    parser_bodies = [b for b in F.bodies.values() if b.path.startswith("rscel::compiler::compiler::CelCompiler::<'l>::parse_") or "::CelCompiler::<'l>::parse_" in b.path]
    for b in parser_bodies:
        if nest_idx is None:
            break
        for blk, t in b.calls():
            dest = t.get("dest") or t.get("destination") or {}
            dl = dest.get("l") if isinstance(dest, dict) else None
            if dl is None or dest.get("p"):
                continue
            ty = b.local_ty(dl) or ""
            if not re.match(r"^rscel::compiler::compiler::CelCompiler<", ty):
                continue
            n_created += 1
            key = "%s|%s" % (lib.short(b.path), lib.short(lib.callee_of(t)[1] or "?"))
            # field writes new.nesting = <copy of (*self).nesting>
            inherit_blocks = []
            for i, st in b.stmts():
                if st.get("k") != "assign":
                    continue
                pl = st["place"]
                if pl.get("l") == dl and pl.get("p") == [{"f": nest_idx}]:
                    src = st["rv"].get("op", {}) if st["rv"].get("k") == "use" else {}
                    src = src.get("move") or src.get("copy") or {}
                    # follow one temporary
                    seen = 0
                    while src and not src.get("p") and seen < 4:
                        seen += 1
                        defs = [s2 for _, s2 in b.stmts() if s2.get("k") == "assign" and s2["place"] == {"l": src.get("l")}]
                        if len(defs) != 1 or defs[0]["rv"].get("k") != "use":
                            break
                        o2 = defs[0]["rv"]["op"]
                        src = o2.get("move") or o2.get("copy") or {}
                    if src.get("l") == 1 and src.get("p") == ["deref", {"f": nest_idx}]:
                        inherit_blocks.append(i)
            # every call that takes a reference to the new parser must be dominated by (or sit in the same block after) such a write
            users = []
            for i, st in b.stmts():
                if st.get("k") == "assign" and st["rv"].get("k") == "ref" and st["rv"]["place"].get("l") == dl:
                    users.append(i)
            bad_users = [u for u in users if not any(g == u or b.dominates(g, u) for g in inherit_blocks)]
            def from_self_nesting(op):
                src = (op.get("move") or op.get("copy") or {}) if isinstance(op, dict) else {}
                for _ in range(4):
                    if src.get("l") == 1 and src.get("p") == ["deref", {"f": nest_idx}]:
                        return True
                    if not src or src.get("p"):
                        return False
                    defs = [s2 for _, s2 in b.stmts() if s2.get("k") == "assign" and s2["place"] == {"l": src.get("l")}]
                    if len(defs) != 1 or defs[0]["rv"].get("k") != "use":
                        return False
                    o2 = defs[0]["rv"]["op"]
                    src = o2.get("move") or o2.get("copy") or {}
                return False
            if any(from_self_nesting(a) for a in t.get("args", [])):
                chk.ok(RULE, key, "the creator's counter is passed to the constructor")
            elif not users:
                chk.ok(RULE, key, "created but never used")
            elif bad_users or not inherit_blocks:
                chk.bad(RULE, key, "%s creates a new parser (its nesting counter starts at 0) and uses it without first copying its own counter into it: " % lib.short(b.path) + consequence,
                        "%s:%d" % (t["file"], t["line"]))
            else:
                chk.ok(RULE, key, "nesting inherited before first use")
    chk.floor(RULE, "parsers created inside parse functions (format-string segments)", n_created, 1)
