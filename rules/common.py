"""helpers shared by the per-property rule modules"""
import re, collections
import lib


def casts_of(b, kinds=("IntToInt", "FloatToInt", "IntToFloat")):
    out = collections.Counter()
    for i, s in b.stmts():
        rv = s.get("rv", {})
        if rv.get("k") == "cast" and rv["ck"].startswith(kinds):
            out[(rv["ck"].split("(")[0], rv["from"], rv["to"])] += 1
    return out


def callees_of(b):
    out = collections.Counter()
    for i, t in b.calls():
        rid, path, c = lib.callee_of(t)
        if rid is not None:
            out[path] += 1
    return out


def asserts_of(b):
    out = []
    for i, t in b.terms("assert"):
        m = t["msg"]
        if m["ak"] != "Other":
            out.append((i, m["ak"], m.get("op"), m.get("ty"), t))
    return out


def with_closures(F, body):
    return [body] + F.closures_of(body)


def zero_test_dominates(b, blk, ty):
    for j, s in b.stmts():
        rv = s.get("rv", {})
        if rv.get("k") == "binop" and rv["op"] in ("Eq", "Ne") and rv.get("aty") == ty and (lib.op_const_int(rv["b"]) == 0 or lib.op_const_int(rv["a"]) == 0):
            if b.dominates(j, blk) and j != blk:
                return True
    return False


LOSSY_INT = {("i64", "u64"), ("u64", "i64"), ("i64", "u32"), ("u64", "u32"), ("i64", "i32"), ("u64", "i32"), ("i64", "usize"), ("usize", "i64"),
             ("u64", "usize"), ("isize", "usize"), ("i64", "isize"), ("i128", "i64"), ("u128", "u64"), ("i64", "u8"), ("u64", "u8"), ("u32", "i32"), ("i32", "u64"), ("i32", "u32")}


def check_casts(chk, rule, b, allowed, why_bad):
    """every int/float cast in b must be in `allowed` {(from,to): reason}"""
    for (ck, fr, to), n in sorted(casts_of(b).items()):
        key = "%s|cast %s->%s" % (b.path, fr, to)
        if (fr, to) in allowed:
            chk.ok(rule, key, allowed[(fr, to)])
        else:
            chk.bad(rule, key, "%s: `as` cast %s -> %s (%s) x%d in %s" % (why_bad, fr, to, ck, n, b.path), b.file)


def forbid_calls(chk, rule, b, regex, why):
    for p, n in callees_of(b).items():
        if re.search(regex, p):
            chk.bad(rule, "%s|calls %s" % (b.path, lib.short(p)), "%s: %s calls %s" % (why, b.path, p), b.file)


def callees_g(b):
    """resolved callee paths with their generic arguments appended: `path<A, B>`"""
    out = collections.Counter()
    for i, t in b.calls():
        rid, path, c = lib.callee_of(t)
        if rid is not None:
            out[path + "<" + ", ".join(c.get("gargs", [])) + ">"] += 1
    return out
