"""C16 time arithmetic / calendar accessors - structural clauses."""
import re
import lib, common, panic_edges

# documented bases -> the chrono accessor that has exactly that base (confirmed against chrono docs)
ROWS = {
    "get_date": ({"<chrono::DateTime<Tz> as chrono::Datelike>::day"}, 0, "date is one-based: day()"),
    "get_day_of_month": ({"<chrono::DateTime<Tz> as chrono::Datelike>::day"}, 1, "day-of-month zero-based: day() - 1"),
    "get_day_of_week": ({"<chrono::DateTime<Tz> as chrono::Datelike>::weekday", "chrono::Weekday::num_days_from_sunday"}, 0, "Sunday = 0: num_days_from_sunday()"),
    "get_day_of_year": ({"<chrono::DateTime<Tz> as chrono::Datelike>::ordinal0"}, 0, "zero-based: ordinal0()"),
    "get_full_year": ({"<chrono::DateTime<Tz> as chrono::Datelike>::year"}, 0, "year()"),
    "get_hours": ({"chrono::DateTime::<Tz>::time", "<chrono::NaiveTime as chrono::Timelike>::hour"}, 0, "hour()"),
    "get_minutes": ({"chrono::DateTime::<Tz>::time", "<chrono::NaiveTime as chrono::Timelike>::minute"}, 0, "minute()"),
    "get_seconds": ({"chrono::DateTime::<Tz>::time", "<chrono::NaiveTime as chrono::Timelike>::second"}, 0, "second()"),
    "get_milliseconds": ({"chrono::DateTime::<Tz>::timestamp_subsec_millis"}, 0, "timestamp_subsec_millis()"),
    "get_month": ({"<chrono::DateTime<Tz> as chrono::Datelike>::month0"}, 0, "zero-based: month0()"),
}
DUR_ROWS = {"get_hours": "chrono::TimeDelta::num_hours", "get_minutes": "chrono::TimeDelta::num_minutes", "get_seconds": "chrono::TimeDelta::num_seconds",
            "get_milliseconds": "chrono::TimeDelta::subsec_nanos"}
ADJ = "rscel::context::default_funcs::time_funcs::helpers::get_adjusted_datetime"


def chrono_calls(b, F=None):
    """chrono callees of the function, its closures and module-private helpers (an accessor applied inside `.map(|adjusted| ..)` is the same accessor)"""
    bodies = common.with_private_callees(F, b) if F is not None else [b]
    bodies = [x for x in bodies if not x.path.endswith("helpers::get_adjusted_datetime")]
    return {c for x in bodies for c in common.callees_of(x) if c.startswith(("chrono::", "<chrono::"))}


def sub_asserts(b, F):
    bodies = [x for x in common.with_private_callees(F, b) if not x.path.endswith("helpers::get_adjusted_datetime")]
    return sum(1 for x in bodies for a in common.asserts_of(x) if a[2] == "Sub")


def run(chk, tier):
    F = lib.get_facts()
    chk.rule("R16.1", "sibling agreement: the zoned overload of every calendar accessor = get_adjusted_datetime + exactly the chrono accessors (and the same -1 adjustment) of the UTC overload")
    chk.rule("R16.2", "each accessor uses the chrono accessor with the documented base (frozen rows)")
    chk.rule("R16.3", "timestamp / duration + and - use chrono's checked operations; no panicking chrono operator or constructor is called anywhere in rscel")
    chk.rule("R16.4", "get_adjusted_datetime parses the zone name (unknown zones fail) and converts with with_timezone")
    n = 0
    for mod, (want, subs, why) in sorted(ROWS.items()):
        bs = F.find(r"time_funcs::%s::methods::%s_\w+$" % (mod, mod), "rscel")
        utc = [b for b in bs if b.local_ty(1).startswith("chrono::DateTime") and b.d["arg_count"] == 1]
        zoned = [b for b in bs if b.d["arg_count"] == 2]
        if len(utc) != 1 or len(zoned) != 1:
            raise lib.MissingAnchor("accessor %s: expected one UTC and one zoned overload, found %d/%d" % (mod, len(utc), len(zoned)))
        u, z = utc[0], zoned[0]
        n += 2
        cu, cz = chrono_calls(u, F), chrono_calls(z, F)
        su, sz = sub_asserts(u, F), sub_asserts(z, F)
        if cu == want and su == subs:
            chk.ok("R16.2", mod, why)
        else:
            chk.bad("R16.2", mod, "%s (UTC form) uses %s with %d subtraction(s); documented base needs %s with %d" % (mod, sorted(map(lib.short, cu)), su, sorted(map(lib.short, want)), subs), u.file)
        uses_adj = any(c == ADJ for x in common.with_private_callees(F, z) if not x.path.endswith("helpers::get_adjusted_datetime") for c in common.callees_of(x))
        if cz == cu and sz == su and uses_adj:
            chk.ok("R16.1", mod, {"utc": sorted(map(lib.short, cu)), "zoned": "get_adjusted_datetime + same"})
        else:
            chk.bad("R16.1", mod, "zoned overload of %s disagrees with the UTC overload: utc=%s(-%d) zoned=%s(-%d) adjusted=%s" % (
                mod, sorted(map(lib.short, cu)), su, sorted(map(lib.short, cz)), sz, uses_adj), z.file)
    for mod, want in sorted(DUR_ROWS.items()):
        bs = [b for b in F.find(r"time_funcs::%s::methods::%s_\w+$" % (mod, mod), "rscel") if b.local_ty(1).startswith("chrono::TimeDelta")]
        if len(bs) != 1:
            raise lib.MissingAnchor("duration accessor %s" % mod)
        if chrono_calls(bs[0], F) == {want}:
            chk.ok("R16.2", mod + "|duration", want)
        else:
            chk.bad("R16.2", mod + "|duration", "duration form of %s uses %s, expected %s" % (mod, sorted(chrono_calls(bs[0])), want), bs[0].file)
    # R16.3
    for op, meth, prims in (("Add", "add", ("checked_add_signed", "checked_add")), ("Sub", "sub", ("checked_sub_signed", "checked_sub"))):
        top = F.body("<rscel::types::cel_value::CelValue as std::ops::%s>::%s" % (op, meth))
        cal = {}
        for b in common.with_closures(F, top):
            cal.update(common.callees_of(b))
        for p in prims:
            if any(c.startswith("chrono::") and c.endswith("::" + p) for c in cal):
                chk.ok("R16.3", "%s|chrono %s" % (op, p))
            else:
                chk.bad("R16.3", "%s|chrono %s" % (op, p), "time arm of %s no longer uses chrono's %s" % (op, p), top.file)
    bad = 0
    for b in F.bodies.values():
        if b.pkg != "rscel":
            continue
        for c in common.callees_of(b):
            k, why = panic_edges.classify_callee(c)
            if k == "panic" and "chrono" in c:
                bad += 1
                chk.bad("R16.3", "%s|%s" % (b.path, lib.short(c)), "%s calls the panicking chrono API %s (%s): out-of-range results must be errors" % (b.path, c, why), b.file)
    if not bad:
        chk.ok("R16.3", "no panicking chrono operator/constructor in rscel")
    adj = F.body(ADJ)
    cal = {}
    for x in common.with_private_callees(F, adj):
        cal.update(common.callees_g(x))
    if any(re.search(r"str>::parse<chrono_tz::\w+::Tz>|Tz as std::str::FromStr>::from_str", c) for c in cal) and any("with_timezone" in c for c in cal):
        chk.ok("R16.4", "get_adjusted_datetime")
    else:
        chk.bad("R16.4", "get_adjusted_datetime", "zone lookup / conversion changed: %s" % [lib.short(c) for c in cal][:6], adj.file)
    # ---- R16.4b the adjusted date-time is the SAME instant in the named zone: with_timezone(this, parsed zone) and nothing else
    import mirq
    ex = [common.payload_blind(e) for e in common.normal_row(F, adj, lambda e: False)["calls"]]
    wt = [e for e in ex if e.startswith("DateTime::with_timezone(")]
    if wt == ["DateTime::with_timezone(p1, _)"] and any(re.match(r"^(FromStr::from_str<Tz>|str::parse<Tz>)\(p2\)$", e) for e in ex) \
            and not [e for e in ex if re.search(r"offset_from|FixedOffset|date_naive|and_hms|midnight|naive_utc", e)]:
        chk.ok("R16.4", "get_adjusted_datetime|same instant, named zone", wt[0])
    else:
        chk.bad("R16.4", "get_adjusted_datetime|same instant, named zone", "the zoned accessors must read the civil fields of the instant itself in the named zone (this.with_timezone(parsed zone)); found %s" % [e[:90] for e in ex][:6], adj.file)
    # ---- R16.5 unit tables: into_<quantity> and from_<quantity> use the same uom unit per variant (identity / invertibility need it)
    chk.rule("R16.5", "unit tables: for every unit variant, the constructor into_<q> and the reader from_<q> name the same uom unit; every variant is listed")
    chk.rule("R16.6", "uomConvert parses BOTH unit names before it can succeed, converts only within one quantity, and fails otherwise")
    UOM = "rscel::context::default_funcs::uom::"
    nun = 0
    for enum, into_, from_ in (("MassUnit", "into_mass", "from_mass"), ("VolumeUnit", "into_volume", "from_volume"), ("SpeedUnit", "into_velocity", "from_velocity"), ("TemperatureUnit", "into_temperature", "from_temperature")):
        tabs = {}
        for fn in (into_, from_):
            b = F.body(UOM + enum + "::" + fn)
            q = mirq.BodyQ(b)
            sws = q.switches_on(F, UOM + enum)
            tab = {}
            if len(sws) == 1:
                sblk, _pl, arms, other = sws[0]
                for var, tgt in arms.items():
                    region = q.exclusive_region(sblk, tgt, list(arms.values()) + [other])
                    us = []
                    for i, t in b.calls():
                        if i in region:
                            rid, pth, c = lib.callee_of(t)
                            if c and re.search(r"::(new|get)$", pth) and c.get("gargs"):
                                us.append(c["gargs"][-1].split("::")[-1])
                    tab[var] = us
            tabs[fn] = tab
        adt = [a for a in F.adts.values() if a["path"] == UOM + enum][0]
        variants = [v["name"] for v in adt["variants"]]
        for v in variants:
            a_, b_ = tabs[into_].get(v), tabs[from_].get(v)
            nun += 1
            if a_ and a_ == b_ and len(a_) == 1:
                chk.ok("R16.5", "%s::%s" % (enum, v), a_[0])
            else:
                chk.bad("R16.5", "%s::%s" % (enum, v), "unit %s::%s is built from %s but read back as %s: converting a unit to itself would not be the identity and conversions would not invert" % (enum, v, a_, b_), "rscel/src/context/default_funcs/uom.rs")
    chk.floor("R16.5", "unit variants", nun, 30)
    ub = F.body(UOM + "uom_convert_internal")
    # decision table of uomConvert by symbolic execution (private helpers inlined, unit-name parsing opaque): every successful row has parsed BOTH
    # names successfully and found the two units in the SAME quantity
    import symex as _sxu, semtables as _stu

    class UomPolicy(_stu.LogicPolicy):
        max_paths = 40000

        def stub(self, interp, st, path, c, args, t, caller):
            if path.endswith("uom::Unit::from_str") or path.endswith("Unit as std::str::FromStr>::from_str"):
                return [(st, ("call", "from_str", tuple(args), "R"))]
            return None
    try:
        urows = _sxu.Interp(F, UomPolicy()).run(ub, [_sxu.U("v"), _sxu.U("from"), _sxu.U("to")])
    except Exception as e_:
        urows = []
        chk.bad("R16.6", "uomConvert|extract", "symbolic execution failed: %s" % str(e_)[:100], ub.file)
    n_ok, bad_parse, bad_cat, cats_seen = 0, [], [], set()
    for st_, r_ in urows:
        if not _sxu.render(r_).startswith("Result::Ok("):
            continue
        n_ok += 1
        var = {str(c[3]): c[2] for c in st_.cond if c[0] == "variant"}
        pf, pt = var.get("from_str(from)"), var.get("from_str(to)")
        if pf not in ("Some", "Ok") or pt not in ("Some", "Ok"):
            bad_parse.append((pf, pt))
            continue
        inner_f = var.get("from_str(from).%s.0" % pf)
        inner_t = var.get("from_str(to).%s.0" % pt)
        cats_seen.add(inner_f)
        if inner_f is None or inner_f != inner_t:
            bad_cat.append((inner_f, inner_t))
    if n_ok and not bad_parse:
        chk.ok("R16.6", "both unit names parsed before any success", {"successful rows": n_ok})
    else:
        chk.bad("R16.6", "both unit names parsed before any success", "uomConvert can succeed on a path where the unit names were not both parsed successfully (%s of %d successful rows): unknown units must fail" % (bad_parse[:2], n_ok), ub.file)
    if n_ok and not bad_cat and cats_seen == {"Mass", "Volume", "Speed", "Temperature"}:
        chk.ok("R16.6", "conversion only within one quantity", sorted(cats_seen))
    else:
        chk.bad("R16.6", "conversion only within one quantity", "uomConvert succeeds for units of different quantities %s (quantities with a successful row: %s)" % (bad_cat[:2], sorted(map(str, cats_seen))), ub.file)
    # ---- arithmetic rows of the value layer (symbolic execution of Add / Sub over the time variants)
    chk.rule("R16.7", "time arithmetic rows: t + d and d + t add d to t, t - d subtracts d from t, t1 - t2 is the signed distance from t2 to t1, d1 +/- d2 keep operand order; "
                      "each through chrono's checked / exact operation on the full-resolution payloads, None -> error")
    import semtables
    WANT = {
        ("Add", "TimeStamp", "Duration"): r"DateTime::checked_add_signed\(ta\.TimeStamp\.0, tb\.Duration\.0\)",
        ("Add", "Duration", "TimeStamp"): r"DateTime::checked_add_signed\(tb\.TimeStamp\.0, ta\.Duration\.0\)",
        ("Add", "Duration", "Duration"): r"TimeDelta::checked_add\((ta\.Duration\.0, tb\.Duration\.0|tb\.Duration\.0, ta\.Duration\.0)\)",
        ("Sub", "TimeStamp", "Duration"): r"DateTime::checked_sub_signed\(ta\.TimeStamp\.0, tb\.Duration\.0\)",
        ("Sub", "Duration", "Duration"): r"TimeDelta::checked_sub\(ta\.Duration\.0, tb\.Duration\.0\)",
        ("Sub", "TimeStamp", "TimeStamp"): r"DateTime::signed_duration_since\(ta\.TimeStamp\.0, tb\.TimeStamp\.0\)",
    }
    WRAP = r"^(?:CelValue::from_timestamp|CelValue::from_duration|CelValue::Duration|CelValue::TimeStamp|From::from<CelValue><-[\w:<>]+|Into::into<T><-U)\((%s)(\.Some\.0)?\)$"
    n_time = 0
    for op_, meth_ in (("Add", "add"), ("Sub", "sub")):
        ob, table_ = semtables.binop_table(F, op_, meth_)
        for (va, vb), rows_ in sorted(table_.items()):
            if va not in ("TimeStamp", "Duration") or vb not in ("TimeStamp", "Duration"):
                continue
            key_ = "%s|%s,%s" % (op_, va, vb)
            want_ = WANT.get((op_, va, vb))
            vals_ = [(pr, rr) for pr, rr in rows_ if not rr.startswith("CelValue::from_err(")]
            if want_ is None:
                # a pair with no rule in the property (duration - timestamp, timestamp + timestamp): accepted when it is an error, reported as outside otherwise
                if vals_:
                    chk.ok("R16.7", key_, "not covered by the property (yields %s)" % vals_[0][1][:60])
                else:
                    chk.ok("R16.7", key_, "error")
                continue
            n_time += 1
            probs_ = []
            if not vals_:
                probs_.append("no value-producing case")
            for pr, rr in vals_:
                m_ = re.match(WRAP % want_, rr)
                if not m_:
                    probs_.append("yields %s" % rr[:110])
                    continue
                partial = "checked_" in m_.group(1)
                some = any(p_[0] == "Some" for p_ in pr)
                if partial and not (some and m_.group(m_.lastindex) == ".Some.0"):
                    probs_.append("uses the result of a partial operation without testing it: %s" % rr[:80])
            for pr, rr in rows_:
                if rr.startswith("CelValue::from_err(") and not any(p_[0] == "None" for p_ in pr) and "checked_" in want_:
                    probs_.append("fails on a path where the operation succeeded")
            if probs_:
                chk.bad("R16.7", key_, "`%s` on (%s, %s): %s; expected %s" % (op_, va, vb, "; ".join(sorted(set(probs_))), want_.replace("\\", "")), ob.file)
            else:
                chk.ok("R16.7", key_, want_.replace("\\", ""))
    chk.floor("R16.7", "time arithmetic rows", n_time, 6)

    # ---- R16.8 dataflow of the zoned overloads: the accessor chain of the UTC overload, applied to the ADJUSTED instant (never to the raw one)
    chk.rule("R16.8", "in every zoned overload the accessor chain reads the value returned by get_adjusted_datetime(this, zone) - the chain of the UTC overload with the "
                      "raw instant replaced by the adjusted one; no calendar field is read from the raw instant")
    n8 = 0
    for mod in sorted(ROWS):
        bs = F.find(r"time_funcs::%s::methods::%s_\w+$" % (mod, mod), "rscel")
        utc = [b for b in bs if b.local_ty(1).startswith("chrono::DateTime") and b.d["arg_count"] == 1]
        zoned = [b for b in bs if b.d["arg_count"] == 2]
        if len(utc) != 1 or len(zoned) != 1:
            raise lib.MissingAnchor("accessor %s overloads" % mod)
        keep = lambda e: False
        ur = [e for e in common.normal_row(F, utc[0], keep)["calls"] if re.search(r"\bp1\)+$", e)]
        zr = common.normal_row(F, zoned[0], keep)["calls"]
        # raw reads: a chrono accessor whose innermost argument is the unadjusted parameter
        raw = [e for e in zr if re.match(r"^(?:Datelike|Timelike|DateTime|Weekday|NaiveTime|NaiveDate)\w*::", e) and re.search(r"\((?:\*?p1|\(\*p1\))\)+$", e)]
        n8 += 1
        if raw:
            chk.bad("R16.8", mod, "the zoned overload of %s reads %s from the raw (UTC) instant, not from the instant adjusted to the zone" % (mod, raw[0]), zoned[0].file)
            continue
        missing = []
        for e in ur:
            pre = e[:e.rindex("p1")]
            suf = e[e.rindex("p1") + 2:]
            hits = [z for z in zr if z.startswith(pre) and z.endswith(suf) and len(z) > len(pre) + len(suf)]
            leaves = [z[len(pre):len(z) - len(suf)] for z in hits]
            if not any(l == "_" or "get_adjusted_datetime(p1, p2)" in l for l in leaves):
                missing.append(e)
        # the weekday base of the zoned form is a recorded finding of R16.1; the dataflow clause only asks where the chain starts
        missing = [e for e in missing if not (mod == "get_day_of_week" and "num_days_from_sunday" in e)]
        if missing:
            chk.bad("R16.8", mod, "the zoned overload of %s does not apply %s to the adjusted instant" % (mod, missing[0].replace("p1", "<adjusted>")), zoned[0].file)
        else:
            chk.ok("R16.8", mod, [e.replace("p1", "<adjusted>") for e in ur])
    chk.floor("R16.8", "zoned accessors", n8, 10)
    chk.analysed["accessor_overloads"] = n
    return chk.finish(
        "Sibling agreement and frozen accessor rows for the ten calendar accessors (UTC vs zoned overloads, from resolved callees), checked chrono "
        "arithmetic in +/-, zone lookup. Unit tables: constructor / reader unit agreement per variant (generic arguments of the uom calls), both names parsed before success, "
        "same-quantity arms only; decision rows of timestamp / duration + and - by symbolic execution. Decides wiring, operand roles and bases; does not decide the calendar laws themselves nor uom's numeric factors.",
        ["chrono accessor contracts (month0, ordinal0, num_days_from_sunday, ...)", "rustc trait resolution"], ["default features"],
        technique="sibling cross-check + frozen callee rows over resolved MIR callees + symbolic-execution rows of time arithmetic")
