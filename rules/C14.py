"""C14 type conversions exact on their domain, reject the rest - structural clauses on the type constructor overloads."""
import re, json, os, sys
import lib, common, mirq

TPFX = "rscel::context::type_funcs::"
ROWS = os.path.join(lib.VERIF, "tables", "typefunc_rows.json")
_DROP = ("Try::branch", "FromResidual::from_residual", "CelError::", "Option::", "Result::", "format", "must_use", "Arguments::", "Argument::", "rt::", "exchange_malloc")


def tf_rows(F):
    rows = {}
    scope = [b for b in F.find(r"^rscel::context::type_funcs::\w+::(methods::\w+|\w+)(::\{closure#\d+\})*$", "rscel")
             if not (b.path.endswith("::dispatch") or "::dispatch::" in b.path or b.path.endswith(("construct_type", "load_default_types")))]
    for b in common.root_bodies(F, scope):
        r = common.normal_row(F, b, lambda e: e.startswith(_DROP))
        rows[b.path[len(TPFX):]] = {"calls": r["calls"], "casts": r["casts"]}
    return rows


# value-preserving std conversions between primitive types (`From` exists only where no value is lost) and exact `as` widenings: a row that differs from
# its reviewed form only by such a conversion of a parameter (bool as 0/1 written `i64::from(b)` instead of `if b { 1 } else { 0 }`) is the same row
_EXACT_FROM = re.compile(r"^From<(i64|u64|f64|i128|u128|usize|isize|f32|i32|u32)<-(bool|u8|u16|u32|i8|i16|i32|f32)>::from\(p\d+\)$")
_EXACT_CAST = {("bool", "i64"), ("bool", "u64"), ("bool", "u8"), ("bool", "i32"), ("u8", "f64"), ("u8", "i64"), ("u8", "u64"), ("u32", "u64"), ("u32", "i64"), ("i32", "i64"), ("u32", "f64"), ("i32", "f64")}


def norm_row(row):
    calls = sorted(common.payload_blind(c) for c in row.get("calls", []) if not _EXACT_FROM.match(c))
    casts = [c for c in row.get("casts", []) if tuple(c.split("->")) not in _EXACT_CAST]
    return {"calls": calls, "casts": casts}

# casts that are the documented conversion itself
CONV_OK = {("i64", "f64"): "int -> nearest double", ("u64", "f64"): "uint -> nearest double",
           ("f64", "i64"): "double -> int truncates toward zero, saturating (Rust `as` semantics = the documented rule)",
           ("f64", "u64"): "double -> uint truncates toward zero, saturating"}
CTORS = {"int": "int_type", "uint": "uint_type", "double": "double_type", "float": "double_type", "string": "string_type", "bytes": "bytes_type",
         "bool": "bool_type", "timestamp": "timestamp_type", "duration": "duration_type", "dyn": "dyn_type", "type": "type_type"}


def run(chk, tier):
    F = lib.get_facts()
    chk.rule("R14.1", "no overload of a type constructor converts between integer types with a wrapping `as` cast (out-of-range must be an error)")
    chk.rule("R14.2", "construct_type wires each type name to its own constructor module")
    chk.rule("R14.3", "string parsing overloads go through str::parse of the target type (round trip int(string(i)) rests on std)")
    bodies = F.find(r"^rscel::context::type_funcs::\w+::methods::\w+$", "rscel")
    chk.floor("R14.1", "type constructor overload bodies", len(bodies), 40)
    for b in sorted(bodies, key=lambda b: b.path):
        if b.path.endswith("::dispatch"):
            continue
        cs = common.casts_of(b)
        if not cs:
            chk.ok("R14.1", b.path)
        for (ck, fr, to), n in sorted(cs.items()):
            key = "%s|cast %s->%s" % (b.path, fr, to)
            if (fr, to) in CONV_OK:
                chk.ok("R14.1", key, CONV_OK[(fr, to)])
            else:
                chk.bad("R14.1", key, "wrapping `as` cast %s -> %s in conversion overload %s: an input without a representation in the target yields a wrapped value, not an error" % (fr, to, b.path), b.file)
        common.forbid_calls(chk, "R14.1", b, r"::(wrapping_|overflowing_|unchecked_)\w+$", "wrapping primitive in a conversion")
    ct = F.body("rscel::context::type_funcs::construct_type")
    cal = common.callees_of(ct)
    for name, mod in sorted(CTORS.items()):
        if any(c == "rscel::context::type_funcs::%s::methods::dispatch" % mod for c in cal):
            chk.ok("R14.2", "%s->%s" % (name, mod))
        else:
            chk.bad("R14.2", "%s->%s" % (name, mod), "construct_type does not reach %s::methods::dispatch" % mod, ct.file)
    # ---- R14.4 generated dispatch of the constructors
    chk.rule("R14.4", "each constructor overload is selected by exactly the argument variants of its signature; other shapes are errors")
    nd = 0
    for b in sorted(F.bodies.values(), key=lambda x: x.path):
        if b.pkg != "rscel" or not b.path.endswith("::methods::dispatch") or not b.path.startswith(TPFX):
            continue
        r = common.dispatch_table(F, b)
        if r is None:
            chk.bad("R14.4", "dispatch|" + b.path[len(TPFX):], "generated dispatch no longer matches on the argument tuple", b.file)
            continue
        width, drows = r
        for pth, slots in drows:
            exp = common.expected_slots(F, pth, width)
            nd += 1
            if exp == slots:
                chk.ok("R14.4", "dispatch|" + pth[len(TPFX):], slots)
            else:
                chk.bad("R14.4", "dispatch|" + pth[len(TPFX):], "%s is selected for %s but its signature demands %s" % (pth[len(TPFX):], slots, exp), b.file)
    chk.floor("R14.4", "dispatched constructor overloads", nd, 40)
    # ---- R14.5 name table of construct_type: the arm for each documented name calls the constructor of that name
    chk.rule("R14.5", "construct_type maps every documented type name to the constructor of the same name (float and double both to double)")
    qc = mirq.BodyQ(ct)
    eqs = []
    for i, t, pth in qc.call_sites(r"PartialEq for str>::eq$|str::traits::<impl .*PartialEq for str>::eq$"):
        lit = None
        for a in t["args"]:
            o = qc.origin(a)
            if o[0] == "const":
                m_ = re.match(r'^(?:const )?"(.*)"$', o[1].get("repr", ""), re.S)
                if m_:
                    lit = m_.group(1)
        if lit is not None:
            eqs.append((i, lit))
    got = {}
    for i, t, pth in qc.call_sites(r"type_funcs::\w+::methods::dispatch$"):
        for bi, lit in eqs:
            sw = None
            cur = ct.blocks[bi]["term"]["t"]
            for _ in range(4):
                t2 = ct.blocks[cur]["term"]
                if t2 and t2["k"] == "switch":
                    sw = t2
                    break
                s_ = ct.succs(cur)
                if len(s_) != 1:
                    break
                cur = s_[0]
            if sw is None:
                continue
            zero = [c_[1] for c_ in sw["cases"] if int(c_[0]) == 0]
            true_t = sw["otherwise"] if zero else [c_[1] for c_ in sw["cases"] if int(c_[0]) == 1][0]
            false_t = zero[0] if zero else sw["otherwise"]
            if (true_t == i or ct.dominates(true_t, i)) and not (false_t == i or ct.dominates(false_t, i)):
                got[lit] = re.search(r"type_funcs::(\w+)::methods", pth).group(1)
    if got == CTORS:
        chk.ok("R14.5", "construct_type names", got)
    else:
        chk.bad("R14.5", "construct_type names", "construct_type maps %s, documented table is %s" % (sorted(got.items()), sorted(CTORS.items())), ct.file)
    # ---- R14.6 primitive rows of the overloads (reviewed table)
    chk.rule("R14.6", "every constructor overload applies the reviewed primitive (identity, exact cast, str::parse of the target type, try_from, from_utf8 ..) to its argument")
    rows = tf_rows(F)
    frozen = json.load(open(ROWS))["rows"]
    for name in sorted(set(rows) | set(frozen)):
        if name not in frozen:
            if "{closure" not in name:
                chk.bad("R14.6", "row|" + name, "new conversion overload / helper %s is not in the reviewed table" % name, "rscel/src/context/type_funcs")
            continue
        if name not in rows:
            chk.bad("R14.6", "row|" + name, "conversion overload %s no longer exists: the accepted source types changed" % name, "rscel/src/context/type_funcs")
            continue
        if norm_row(rows[name]) == norm_row(frozen[name]):
            chk.ok("R14.6", "row|" + name, rows[name]["calls"][:2] or "identity / cast only")
        else:
            chk.bad("R14.6", "row|" + name, "%s no longer converts with its documented primitive: now %s, reviewed %s" % (name, rows[name], frozen[name]), "rscel/src/context/type_funcs")
    chk.floor("R14.6", "constructor overload rows", len(rows), 36)
    # ---- R14.7 f-strings
    chk.rule("R14.7", "f-string lowering: every segment (literal or embedded expression, constant or not) is pushed and passed through string(); FMTSTRING(n) concatenates the n results in source order")
    import tplrules, semtables, vmtable
    db = tplrules.load(F)
    nf = 0
    for p in db["roots"].get("parse_primary", []):
        if p["kind"] == "code" and any(it["k"] == "op" and it["name"] == "FmtString" for it in p["items"]):
            nf += 1
            its = p["items"]
            groups = its[:-1]
            okf = len(groups) % 3 == 0 and len(groups) > 0
            for g in range(0, len(groups) - 2, 3):
                a_, b_, c_ = groups[g], groups[g + 1], groups[g + 2]
                okf = okf and a_["k"] == "op" and a_["name"] == "Push" and b_["k"] == "op" and b_["name"] == "Push" and b_["args"] == ["CelValue::Ident('string')"] \
                    and c_["k"] == "op" and c_["name"] == "Call" and c_["args"] == ["1"]
                seg = a_["args"][0] if a_.get("args") else ""
                okf = okf and (seg.startswith("CelValue::String(") and "FStringLit" in seg or seg.startswith("CelValue::ByteCode("))
            last = its[-1]
            okf = okf and "Vec::len(" in " ".join(last.get("args", [])) and "FStringLit" in " ".join(last.get("args", []))
            key = "fstring|" + p["text"][:70]
            if okf:
                chk.ok("R14.7", key)
            else:
                chk.bad("R14.7", key, "an f-string must lower to, per segment, PUSH segment; PUSH ident string; CALL 1, then FMTSTRING(number of segments); found %s - a segment rendered any other way (e.g. formatted by the compiler) differs from string(e)" % p["text"][:260], "rscel/src/compiler/compiler.rs (parse_primary)")
        elif p["kind"] == "const" and "FStringLit" in json.dumps(p.get("cond")) and "FStringLit" in str([c[2] for c in p["cond"]]):
            chk.bad("R14.7", "fstring|folded", "an f-string is folded to a constant by the compiler: %s" % p["text"][:120], "rscel/src/compiler/compiler.rs (parse_primary)")
    chk.floor("R14.7", "f-string templates", nf, 3)
    vm = vmtable.VM(F)
    rowsf = semtables.arm_paths(F, vm, "FmtString") or []
    pushes = sorted(set(e[1] for _, ev in rowsf for e in ev if e[0] == "push"))
    wantp = ["CelValue::String([%s])" % ", ".join("pop%d.String.0" % i for i in range(n_, 0, -1)) for n_ in range(0, max(4, len(pushes)))]
    wantp = wantp[:len(pushes)]
    if len(pushes) >= 4 and pushes == sorted(wantp):
        chk.ok("R14.7", "FMTSTRING concatenates in source order", wantp[-1])
    else:
        chk.bad("R14.7", "FMTSTRING concatenates in source order", "the VM's FMTSTRING arm builds %s" % pushes, vm.b.file)
    for mod, ty in (("int_type", "i64"), ("uint_type", "u64"), ("double_type", "f64")):
        hit = False
        for b in F.find(r"^rscel::context::type_funcs::%s::methods::\w+" % mod, "rscel"):
            for c in common.callees_g(b):
                if re.search(r"str>::parse<%s>" % ty, c):
                    hit = True
        if hit:
            chk.ok("R14.3", mod)
        else:
            chk.bad("R14.3", mod, "%s: no overload parses text with str::parse::<%s>" % (mod, ty), "")
    return chk.finish(
        "Every overload body of the ten type constructors (generated by #[dispatch]) is scanned for numeric casts and wrapping primitives and compared with its reviewed "
        "primitive row; the generated dispatch tables are compared with the overload signatures; construct_type's name table with the documented one; the f-string "
        "template (from symbolic execution of the parser) with the per-segment string() lowering, and the VM's FMTSTRING arm with in-order concatenation. Decides: no "
        "conversion wraps, wiring, shapes, primitives, f-string lowering. Does not decide the round-trip equalities themselves (std parse/format).",
        ["rustc MIR", "Rust `as` float->int semantics (saturating truncation)", "tables/typefunc_rows.json (reviewed)", "symex summaries for the f-string template"], ["default features"],
        technique="MIR cast / dispatch-table / primitive-row rules over the conversion overloads + f-string template from symbolic execution")


if __name__ == "__main__":
    if "--freeze" in sys.argv:
        F = lib.get_facts()
        json.dump({"_doc": "primitive rows of the type constructor overloads (expression trees over the parameters + numeric casts); generated by "
                           "`python3 rules/C14.py --freeze`, reviewed by reading each overload against USAGE.md", "rows": tf_rows(F)}, open(ROWS, "w"), indent=1, sort_keys=True)
        print("wrote", ROWS)
