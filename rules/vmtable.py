"""The VM's per-opcode behaviour extracted from the MIR of Interpreter::run_raw:
  * stack effect per ByteCode arm: (fixed pops, pops per loop iteration, pushes) on every path that continues the dispatch loop
  * which CelValue operation each arm applies and in which operand order (first pop = right operand)
Used by C10 (well-formed templates), C09 (fold / VM pairing), C05, C06, C02."""
import re, collections
import lib, mirq

RUN_RAW = "rscel::interp::interp::Interpreter::<'a>::run_raw"
BYTECODE = "rscel::interp::types::bytecode::ByteCode"
POPS = re.compile(r"InterpStack::<'a, 'b>::(pop|pop_val|pop_noresolve|pop_tryresolve)$")
PUSHES = re.compile(r"InterpStack::<'a, 'b>::(push|push_val)$")

# frozen expectation (read off interp.rs; DESIGN R10.1): opcode -> (fixed pops, pops per counted iteration, pushes)
EXPECTED = {
    "Push": (0, 0, 1), "Pop": (1, 0, 0), "Test": (1, 0, 1), "Dup": (1, 0, 2), "Or": (2, 0, 1), "And": (2, 0, 1), "Not": (1, 0, 1), "Neg": (1, 0, 1),
    "Add": (2, 0, 1), "Sub": (2, 0, 1), "Mul": (2, 0, 1), "Div": (2, 0, 1), "Mod": (2, 0, 1), "Lt": (2, 0, 1), "Le": (2, 0, 1), "Eq": (2, 0, 1),
    "Ne": (2, 0, 1), "Ge": (2, 0, 1), "Gt": (2, 0, 1), "In": (2, 0, 1), "Jmp": (0, 0, 0), "JmpCond": (1, 0, 0), "MkList": (0, 1, 1), "MkDict": (0, 2, 1),
    "Index": (2, 0, 1), "Access": (2, 0, 1), "Call": (1, 1, 1), "FmtString": (0, 1, 1),
}
# opcode -> the CelValue operation its arm must apply (shared with the constant folder), operands as (left, right) = (second pop, first pop)
BINARY = {"Or": "CelValue::or", "And": "CelValue::and", "Add": "Add::add", "Sub": "Sub::sub", "Mul": "Mul::mul", "Div": "Div::div", "Mod": "Rem::rem",
          "Lt": "CelValue::lt", "Le": "CelValue::le", "Eq": "CelValueDyn::eq", "Ne": "CelValue::neq", "Ge": "CelValue::ge", "Gt": "CelValue::gt",
          "In": "CelValue::in_", "Index": "CelValue::index"}
UNARY = {"Not": "Not::not", "Neg": "Neg::neg"}


class VM:
    def __init__(self, F):
        self.F = F
        self.b = F.body(RUN_RAW)
        self.q = mirq.BodyQ(self.b)
        sws = [s for s in self.q.switches_on(F, BYTECODE) if len(s[2]) >= 20]
        if len(sws) != 1:
            raise lib.MissingAnchor("run_raw dispatch switch on ByteCode (found %d)" % len(sws))
        self.sblk, self.place, self.arms, self.other = sws[0]
        self.dom = set(self.b.dominators()[self.sblk])
        # the dispatch loop's header: the dominator of the switch that is re-entered from the arms
        self.header = None
        for d in sorted(self.dom):
            if any(p not in self.dom and p in self.q.reach(self.sblk) for p in self.b.preds(d)):
                self.header = d
        if self.header is None:
            raise lib.MissingAnchor("run_raw dispatch loop header")

    def region(self, name):
        return self.q.arm_region(self.sblk, self.arms[name])

    def effects(self, name):
        """set of (fixed pops, loop pops, pushes) over all paths of the arm that re-enter the dispatch loop"""
        b, q = self.b, self.q
        region = self.region(name)
        start = self.arms[name]
        calls = {}
        for i, t in b.calls():
            if i in region:
                rid, path, c = lib.callee_of(t)
                if rid is None:
                    continue
                if POPS.search(path):
                    calls[i] = "pop"
                elif PUSHES.search(path):
                    calls[i] = "push"
        # blocks on an inner cycle of the region
        inloop = set()
        for x in region:
            for y in b.succs(x):
                if y in region and x in q.reach(y, blocked=self.dom):
                    inloop.add(x)
        out = set()
        budget = [400000]

        def dfs(x, seen, fp, lp, pu):
            budget[0] -= 1
            if budget[0] < 0:
                raise lib.MissingAnchor("path budget exhausted in arm " + name)
            if x in calls:
                if calls[x] == "pop":
                    if x in inloop:
                        lp += 1
                    else:
                        fp += 1
                else:
                    pu += 1
            for y in b.succs(x):
                if y == self.header or y in self.dom:
                    out.add((fp, lp, pu))
                elif y in region and seen.get(y, 0) < (2 if y in inloop else 1):
                    s2 = dict(seen)
                    s2[y] = s2.get(y, 0) + 1
                    dfs(y, s2, fp, lp, pu)
        import sys
        sys.setrecursionlimit(10000)
        dfs(start, {start: 1}, 0, 0, 0)
        return out

    def arm_calls(self, name, regex):
        r = re.compile(regex)
        region = self.region(name)
        return [(i, t, p) for (i, t, p) in self.q.call_sites(regex) if i in region]

    def pops_in_order(self, name):
        """pop call sites of a straight-line arm ordered by dominance (first executed first)"""
        region = self.region(name)
        sites = [(i, t) for i, t in self.b.calls() if i in region and lib.callee_of(t)[0] is not None and POPS.search(lib.callee_of(t)[1])]
        sites.sort(key=lambda s: sum(1 for o in sites if self.b.dominates(o[0], s[0])))
        return sites

    def operation(self, name):
        """(callee short name, [operand roles]) of the value pushed by a unary/binary arm; roles name the pop that produced each
        argument: 'pop1' = first value popped (top of stack = right operand), 'pop2' = second"""
        pops = self.pops_in_order(name)
        region = self.region(name)
        poplocal = {}
        for n, (i, t) in enumerate(pops):
            # value extracted from the CelResult through `?`: find the local holding the Ok payload
            poplocal[i] = "pop%d" % (n + 1)
        pushes = [(i, t) for i, t in self.b.calls() if i in region and lib.callee_of(t)[0] is not None and PUSHES.search(lib.callee_of(t)[1])]
        if len(pushes) != 1:
            return None
        pi, pt = pushes[0]
        names = {t["dest"]["l"]: "pop%d" % (n + 1) for n, (i, t) in enumerate(pops)}
        e = mirq.expr_named(self.q, pt["args"][1], names)
        e = re.sub(r"Try::branch\((pop\d+)\)\.Continue\.0", r"\1", e)
        return e
