"""C04 equality / ordering laws - structural clauses."""
import re
import lib, common

CV = "rscel::types::cel_value::CelValue::"
EQ_CASTS_OK = {("i32", "i64"): "protobuf enum number widened exactly",
               ("i32", "u64"): "protobuf enum number vs uint (protobuf-only operand; outside the value types of the property)"}


def run(chk, tier):
    F = lib.get_facts()
    chk.rule("R04.1", "`!=` is the negation of the one `==`: neq's closure calls CelValueDyn::eq once and applies `!`")
    chk.rule("R04.2", "one order: lt/le/gt/ge each call CelValue::ord exactly once and no other comparison of operands")
    chk.rule("R04.3", "ord / eq / type_prop contain no value-changing integer cast (uint vs int compared by value)")
    chk.rule("R04.4", "sort compares through CelValue::ord; min uses lt, max uses gt, replacing only on strict improvement (first extreme kept)")
    neq = F.body(CV + "neq")
    bs = common.with_closures(F, neq)
    calls = {}
    nots = 0
    for b in bs:
        calls.update(common.callees_of(b))
        nots += sum(1 for i, s in b.stmts() if s.get("rv", {}).get("k") == "unop" and s["rv"]["op"] == "Not")
    eqs = sum(n for c, n in calls.items() if c.endswith("CelValueDyn>::eq"))
    if eqs == 1 and nots >= 1:
        chk.ok("R04.1", "neq", {"eq_calls": eqs, "not_ops": nots})
    else:
        chk.bad("R04.1", "neq", "neq is no longer `!eq` (eq calls=%d, `!` ops=%d)" % (eqs, nots), neq.file)
    for m in ("lt", "le", "gt", "ge"):
        b0 = F.body(CV + m)
        calls = {}
        for b in common.with_closures(F, b0):
            calls.update(common.callees_of(b))
        n_ord = sum(n for c, n in calls.items() if c == CV + "ord")
        other = [c for c in calls if re.search(r"partial_cmp|::cmp$|CelValueDyn>::eq|CelValue::(lt|le|gt|ge|neq)$", c)]
        if n_ord == 1 and not other:
            chk.ok("R04.2", m, "ord x1")
        else:
            chk.bad("R04.2", m, "%s: ord calls=%d, other comparisons=%s" % (m, n_ord, other), b0.file)
    for name in ("ord", "type_prop"):
        for b in common.with_closures(F, F.body(CV + name)):
            import C03
            common.check_casts(chk, "R04.3", b, C03.WIDEN_OK, "comparison operand conversion that can change the value")
    eq = F.body("<rscel::types::cel_value::CelValue as rscel::types::cel_value_dyn::CelValueDyn>::eq")
    for b in common.with_closures(F, eq):
        common.check_casts(chk, "R04.3", b, EQ_CASTS_OK, "equality operand conversion that can change the value")
    # ord goes through type_prop
    if any(c == CV + "type_prop" for c in common.callees_of(F.body(CV + "ord"))):
        chk.ok("R04.3", "ord|type_prop applied")
    else:
        chk.bad("R04.3", "ord|type_prop applied", "ord no longer widens through type_prop", "")
    # R04.4
    srt = F.find(r"default_funcs::sort::methods::sort_\w+$", "rscel")
    ok = False
    for b in srt:
        for c in F.closures_of(b):
            cal = common.callees_of(c)
            if any(x == CV + "ord" for x in cal) and not any(re.search(r"partial_cmp|::cmp$", x) for x in cal):
                ok = True
    if ok:
        chk.ok("R04.4", "sort|comparator=ord")
    else:
        chk.bad("R04.4", "sort|comparator=ord", "sort's comparator closure does not (only) call CelValue::ord", "")
    for fn, want, other in (("min_impl", "lt", ("le", "gt", "ge")), ("max_impl", "gt", ("ge", "lt", "le"))):
        b = F.body("rscel::context::default_funcs::" + fn)
        cal = common.callees_of(b)
        if cal.get(CV + want, 0) == 1 and not any(cal.get(CV + o) for o in other):
            chk.ok("R04.4", fn, "calls CelValue::%s once" % want)
        else:
            chk.bad("R04.4", fn, "%s must compare with strict `%s` only (first extreme kept); calls: %s" % (fn, want, [lib.short(c) for c in cal if c.startswith(CV)]), b.file)
    return chk.finish(
        "Structural wiring of the comparison layer: != = !==, a single ord behind < <= > >=, no value-changing casts in ord/eq/type_prop, "
        "sort/min/max wired to the same order with strict replacement. Decides the wiring; does not decide transitivity on doubles/NaN or the "
        "constant sets inside lt/le/gt/ge.",
        ["rustc MIR + resolved callees"], ["default features"], technique="MIR callee/cast rules over comparison functions")
