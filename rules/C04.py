"""C04 equality / ordering laws - structural clauses."""
import re
import lib, common

CV = "rscel::types::cel_value::CelValue::"
EQ_CASTS_OK = {("i32", "i64"): "protobuf enum number widened exactly",
               ("i32", "u64"): "protobuf enum number vs uint (protobuf-only operand; outside the value types of the property)"}


def sort_guard(chk, F, RULE):
    import symex, semtables
    # ---- R04.8 sort's guard: the order handed to sort_by is total on the list
    chk.rule(RULE, "sort reaches sort_by only for an empty list or when every element e satisfies ord(e, first) = Ok(Some) and ord(e, e) = Ok(Some): elements are mutually comparable "
                      "and none is NaN, so the comparator is a total order (std's sort_by may panic on anything else) and the result is an ordered permutation")
    srt8 = F.find(r"default_funcs::sort::methods::sort_\w+$", "rscel")
    srt8 = [b_ for b_ in srt8 if "{closure" not in b_.path]

    class SortPolicy(semtables.LogicPolicy):
        max_paths = 800

        def stub(self, interp, st, path, c, args, t, caller):
            if path.endswith("CelValue::ord"):
                return [(st, ("call", "ord", tuple(args), "R"))]
            if re.search(r"slice::<impl \[T\]>::(sort|sort_by|sort_unstable|sort_unstable_by|sort_by_key)", path):
                st.event("sorted", path)
                return [(st, ("unit",))]
            return None
    n_sorted = 0
    for sb in srt8:
        it = symex.Interp(F, SortPolicy())
        for st, r in it.run(sb, [symex.U("this", sb.local_ty(1))]):
            if not any(e[0] == "sorted" for e in st.trace):
                continue
            n_sorted += 1
            conds = [(c[2], str(c[3])) for c in st.cond if c[0] == "variant"]
            empty = any(v == "None" and "first(this)" in w for v, w in conds)
            FIRST = r"Option::cloned\(slice::first\(this\)\)\.Some\.0|slice::first\(this\)\.Some\.0"
            ELEM = r"\*this"
            need = {"with first Ok": r"^ord\((?:%s), (?:%s)\)$|^ord\((?:%s), (?:%s)\)$" % (ELEM, FIRST, FIRST, ELEM), "with first Some": r"^ord\((?:%s|%s), (?:%s|%s)\)\.Ok\.0$" % (ELEM, FIRST, FIRST, ELEM),
                    "with self Ok": r"^ord\(%s, %s\)$" % (ELEM, ELEM), "with self Some": r"^ord\(%s, %s\)\.Ok\.0$" % (ELEM, ELEM)}
            have = {}
            for nm, rx in need.items():
                wantv = "Ok" if nm.endswith("Ok") else "Some"
                have[nm] = any(v == wantv and re.match(rx, w) for v, w in conds)
            key = "sort|%s" % ("empty list" if empty else "guarded")
            if not empty and not all(have.values()):
                # the same guard written as `iter().all(|e| ..)`: the closure's true rows must establish the four facts for its element
                allp = [str(c[1]) for c in st.cond if c[0] == "ne" and re.match(r"^Iterator::all\(.*, closure#\d+\)$", str(c[1]))]
                for ap in allp:
                    k_ = int(re.search(r"closure#(\d+)\)$", ap).group(1))
                    cb = [c_ for c_ in F.closures_of(sb) if c_.path.endswith("{closure#%d}" % k_)]
                    if not cb or cb[0].d.get("arg_count") != 2:
                        continue
                    itc = symex.Interp(F, SortPolicy())
                    trues = []
                    for stc, rc in itc.run(cb[0], [symex.U("cap"), symex.U("e")]):
                        if symex.render(rc) == "1":
                            trues.append([(c[2], str(c[3])) for c in stc.cond if c[0] == "variant"])
                        elif symex.render(rc) != "0":
                            trues.append(None)
                    def establishes(cs):
                        if cs is None:
                            return False
                        w_first = any(v == "Ok" and re.match(r"^ord\((e, cap\.\d+|cap\.\d+, e)\)$", w) for v, w in cs) and any(v == "Some" and re.match(r"^ord\((e, cap\.\d+|cap\.\d+, e)\)\.Ok\.0$", w) for v, w in cs)
                        w_self = ("Ok", "ord(e, e)") in cs and ("Some", "ord(e, e).Ok.0") in cs
                        return w_first and w_self
                    if trues and all(establishes(cs) for cs in trues):
                        have = {k2: True for k2 in have}
            if empty or all(have.values()):
                chk.ok(RULE, key, sorted(k_ for k_, v_ in have.items() if v_))
            else:
                chk.bad(RULE, key, "sort_by is reached without establishing %s for every element: a list with a NaN (ord = Ok(None)) or with incomparable elements reaches the comparator, "
                                      "which is then no total order - std's sort_by panics on such input (lists longer than 20) or returns an unordered list"
                        % sorted(k_ for k_, v_ in have.items() if not v_), sb.file)
    chk.floor(RULE, "paths of sort that reach sort_by", n_sorted, 2)


def run(chk, tier):
    F = lib.get_facts()
    chk.rule("R04.1", "`!=` is the negation of the one `==`: neq's closure calls CelValueDyn::eq once and applies `!`")
    chk.rule("R04.2", "one order: lt/le/gt/ge each call CelValue::ord exactly once and no other comparison of operands")
    chk.rule("R04.3", "ord / eq / type_prop contain no value-changing integer cast (uint vs int compared by value)")
    chk.rule("R04.4", "sort compares through CelValue::ord; min uses lt, max uses gt, replacing only on strict improvement (first extreme kept)")
    neq = F.body(CV + "neq")
    bs = common.with_closures(F, neq)
    calls = {}
    nots = 0
    for b in bs:
        calls.update(common.callees_of(b))
        nots += sum(1 for i, s in b.stmts() if s.get("rv", {}).get("k") == "unop" and s["rv"]["op"] == "Not")
    eqs = sum(n for c, n in calls.items() if c.endswith("CelValueDyn>::eq"))
    if eqs == 1 and nots >= 1:
        chk.ok("R04.1", "neq", {"eq_calls": eqs, "not_ops": nots})
    else:
        chk.bad("R04.1", "neq", "neq is no longer `!eq` (eq calls=%d, `!` ops=%d)" % (eqs, nots), neq.file)
    for m in ("lt", "le", "gt", "ge"):
        b0 = F.body(CV + m)
        calls = {}
        for b in common.with_private_callees(F, b0):
            for c_, n_ in common.callees_of(b).items():
                calls[c_] = calls.get(c_, 0) + n_
        n_ord = sum(n for c, n in calls.items() if c == CV + "ord")
        other = [c for c in calls if re.search(r"partial_cmp|::cmp$|CelValueDyn>::eq|CelValue::(lt|le|gt|ge|neq)$", c)]
        if n_ord == 1 and not other:
            chk.ok("R04.2", m, "ord x1")
        else:
            chk.bad("R04.2", m, "%s: ord calls=%d, other comparisons=%s" % (m, n_ord, other), b0.file)
    for name in ("ord", "type_prop"):
        for b in common.with_closures(F, F.body(CV + name)):
            import C03
            common.check_casts(chk, "R04.3", b, C03.WIDEN_OK, "comparison operand conversion that can change the value")
    eq = F.body("<rscel::types::cel_value::CelValue as rscel::types::cel_value_dyn::CelValueDyn>::eq")
    for b in common.with_closures(F, eq):
        common.check_casts(chk, "R04.3", b, EQ_CASTS_OK, "equality operand conversion that can change the value")
    # ord goes through type_prop
    if any(c == CV + "type_prop" for c in common.callees_of(F.body(CV + "ord"))):
        chk.ok("R04.3", "ord|type_prop applied")
    else:
        chk.bad("R04.3", "ord|type_prop applied", "ord no longer widens through type_prop", "")
    # R04.4
    srt = F.find(r"default_funcs::sort::methods::sort_\w+$", "rscel")
    ok = False
    for b in srt:
        for c in F.closures_of(b):
            cal = common.callees_of(c)
            if any(x == CV + "ord" for x in cal) and not any(re.search(r"partial_cmp|::cmp$", x) for x in cal):
                ok = True
    if ok:
        chk.ok("R04.4", "sort|comparator=ord")
    else:
        chk.bad("R04.4", "sort|comparator=ord", "sort's comparator closure does not (only) call CelValue::ord", "")
    # (min / max: decided exactly by the tables of R04.9)
    # ---------------- decision tables by symbolic execution
    import symex, semtables, collections, itertools
    CVT = "rscel::types::cel_value::CelValue"

    class CmpPolicy(semtables.LogicPolicy):
        max_paths = 30000
        loop_limit = 2

        def stub(self, interp, st, path, c, args, t, caller):
            if path.endswith("CelValue::type_prop"):
                # the widening table itself is C03 R03.7; here the pair after widening is an arbitrary pair (ta, tb)
                return [(st, ("tup", (symex.U("ta", CVT), symex.U("tb", CVT))))]
            return None

    def cell(st, who):
        v = [c[2] for c in st.cond if c[0] == "variant" and c[3] == who]
        return v[0] if v else "other"

    chk.rule("R04.5", "ord's table: the eight comparable types compare their payloads with partial_cmp, a mixed int/uint pair left by widening orders by magnitude (uint above i64::MAX is greater), every other pair is an error")
    chk.rule("R04.6", "eq's table is symmetric in its operand classes: whatever pair (A, B) is handled, (B, A) is handled the same way; equal-type pairs compare payloads")
    chk.rule("R04.7", "lt / le / gt / ge accept exactly {Less}, {Less, Equal}, {Greater}, {Greater, Equal} of the one ordering")
    it = symex.Interp(F, CmpPolicy())
    outs = it.run(F.body(CV + "ord"), [symex.U("a", CVT), symex.U("b", CVT)])
    tab = collections.defaultdict(set)
    for st, r in outs:
        tab[(cell(st, "ta"), cell(st, "tb"))].add(symex.render(r))
    comparable = ["Int", "UInt", "Float", "Bool", "String", "Bytes", "TimeStamp", "Duration"]
    for ty in comparable:
        got = tab.get((ty, ty), set())
        if len(got) == 1 and re.match(r"^Result::Ok\((PartialOrd( for \w+)?::partial_cmp)\(ta\.%s\.0, tb\.%s\.0\)\)$" % (ty, ty), next(iter(got))):
            chk.ok("R04.5", "ord|%s,%s" % (ty, ty), next(iter(got))[:80])
        else:
            chk.bad("R04.5", "ord|%s,%s" % (ty, ty), "two %s values must be ordered by partial_cmp of their payloads (left, right); found %s" % (ty, sorted(got)), "rscel/src/types/cel_value.rs")
    mixed = {("Int", "UInt"): "Result::Ok(Option::Some(Ordering::Less))", ("UInt", "Int"): "Result::Ok(Option::Some(Ordering::Greater))"}
    for k_, w_ in mixed.items():
        if tab.get(k_) == {w_}:
            chk.ok("R04.5", "ord|%s,%s" % k_, w_)
        else:
            chk.bad("R04.5", "ord|%s,%s" % k_, "an int / uint pair that widening leaves mixed (uint above i64::MAX) must order the uint as greater: %s" % sorted(tab.get(k_, [])), "rscel/src/types/cel_value.rs")
    for k_, got in sorted(tab.items()):
        if k_[0] == k_[1] and k_[0] in comparable or k_ in mixed:
            continue
        if all(g.startswith("Result::Err(") for g in got):
            chk.ok("R04.5", "ord|%s,%s" % k_, "error")
        else:
            chk.bad("R04.5", "ord|%s,%s" % k_, "comparing %s with %s must be an error, found %s" % (k_[0], k_[1], sorted(got)[:2]), "rscel/src/types/cel_value.rs")
    # eq symmetry
    eqb = F.body("<rscel::types::cel_value::CelValue as rscel::types::cel_value_dyn::CelValueDyn>::eq")
    it = symex.Interp(F, CmpPolicy())
    outs = it.run(eqb, [symex.U("a", "&" + CVT), symex.U("b", "&" + CVT)])
    handled = collections.defaultdict(set)
    raw_eq = collections.defaultdict(set)
    for st, r in outs:
        a_, b_ = cell(st, "ta"), cell(st, "tb")
        rr = symex.render(r)
        # class of the outcome: 'payload' (a comparison of the two payloads), 'const' false, 'rec' element-wise, 'dyn'
        if rr in ("CelValue::false_()",):
            cls = "false"
        elif rr in ("CelValue::true_()",):
            cls = "true"
        elif rr.startswith("CelValue::from_bool("):
            cls = "cmp"
        elif rr.startswith("CelValue::from_err("):
            cls = "err"
        elif rr in ("a", "b"):
            cls = "failed operand"
        else:
            cls = "other:" + rr[:40]
        handled[(a_, b_)].add(cls)
        raw_eq[(a_, b_)].add(rr)
    variants = sorted(set(x for k_ in handled for x in k_) - {"other"})
    asym = []
    for x, y in itertools.permutations(variants, 2):
        if x == "Dyn" or y == "Dyn":
            continue           # user objects: assumption A-user
        hx = handled.get((x, y))
        hy = handled.get((y, x))
        special_x = hx is not None and hx - {"false"}
        special_y = hy is not None and hy - {"false"}
        if bool(special_x) != bool(special_y):
            asym.append((x, y, sorted(hx or []), sorted(hy or ["false (falls through)"])))
    if asym:
        for x, y, hx, hy in asym:
            if (y, x) < (x, y) and any(a2 == y and b2 == x for a2, b2, _, _ in asym):
                continue
            chk.bad("R04.6", "eq|%s,%s" % (x, y), "`==` handles (%s, %s) as %s but (%s, %s) as %s: equality is not symmetric for this pair of operand types" % (x, y, hx, y, x, hy), "rscel/src/types/cel_value.rs")
    else:
        chk.ok("R04.6", "eq|symmetric handling", {"pairs": len(handled)})
    for ty in ["Int", "UInt", "Float", "Bool", "String", "Bytes", "TimeStamp", "Duration", "Type"]:
        got = raw_eq.get((ty, ty), set())
        if len(got) == 1 and re.match(r"^CelValue::from_bool\((Eq|PartialEq::eq)\((ta\.%s\.0, tb\.%s\.0|tb\.%s\.0, ta\.%s\.0)\)\)$" % (ty, ty, ty, ty), next(iter(got))):
            chk.ok("R04.6", "eq|%s,%s" % (ty, ty))
        else:
            chk.bad("R04.6", "eq|%s,%s" % (ty, ty), "two %s values must be equal iff their payloads are: %s" % (ty, sorted(got)), "rscel/src/types/cel_value.rs")
    plain = [v for v in variants if v not in ("Dyn", "Enum")]
    for x, y in itertools.product(plain + ["other"], plain + ["other"]):
        if x == y and x != "other":
            continue
        got = handled.get((x, y))
        if got is None:
            continue
        if got - {"false", "failed operand"}:
            chk.bad("R04.6", "eq|%s,%s" % (x, y), "values of different types (after widening) must compare unequal; (%s, %s) yields %s" % (x, y, sorted(raw_eq[(x, y)])[:2]), "rscel/src/types/cel_value.rs")
        else:
            chk.ok("R04.6", "eq|%s,%s" % (x, y), "false")
    if handled.get(("Null", "Null")) == {"true"}:
        chk.ok("R04.6", "eq|Null,Null")
    else:
        chk.bad("R04.6", "eq|Null,Null", str(handled.get(("Null", "Null"))), "rscel/src/types/cel_value.rs")
    # lt / le / gt / ge constant sets
    want_sets = {"lt": {"Less"}, "le": {"Less", "Equal"}, "gt": {"Greater"}, "ge": {"Greater", "Equal"}}

    class OrdPolicy(semtables.LogicPolicy):
        max_paths = 2000

        def stub(self, interp, st, path, c, args, t, caller):
            if path.endswith("CelValue::ord"):
                return [(st, symex.U("o", "std::result::Result<std::option::Option<std::cmp::Ordering>, rscel::types::cel_error::CelError>"))]
            return None
    for m, want in want_sets.items():
        it = symex.Interp(F, OrdPolicy())
        outs = it.run(F.body(CV + m), [symex.U("a", CVT), symex.U("b", CVT)])
        PRED = re.compile(r"^PartialEq::eq\(o\.Ok\.0, Option::(?:Some\(Ordering::(\w+)\)|(None))\)$")
        accept, undecided = set(), []
        for w in ("Less", "Equal", "Greater", "None"):
            res = set()
            for st, r in outs:
                rr = symex.render(r)
                if "o.Err" in rr or rr in ("a", "b"):
                    continue
                feasible = True
                for c in st.cond:
                    # the ordering may also be taken apart by matching: Some / None of ord's payload, then the Ordering variant
                    if c[0] == "variant" and str(c[3]) == "o.Ok.0" and c[2] in ("Some", "None"):
                        if (c[2] == "None") != (w == "None"):
                            feasible = False
                    if c[0] == "variant" and str(c[3]) == "o.Ok.0.Some.0" and c[2] in ("Less", "Equal", "Greater"):
                        if c[2] != w:
                            feasible = False
                    if c[0] == "variant-not" and str(c[3]) == "o.Ok.0.Some.0" and w in c[2]:
                        feasible = False
                    if c[0] in ("eq", "ne") and isinstance(c[1], str):
                        mm = PRED.match(c[1])
                        if mm:
                            holds = (mm.group(1) or mm.group(2)) == w
                            truth = (c[0] == "ne")          # ('ne', p, (0,)) : p is true ; ('eq', p, 0) : p is false
                            if holds != truth:
                                feasible = False
                if not feasible:
                    continue
                mm = re.match(r"^Into::into<T><-U\((.*)\)$", rr)
                inner = mm.group(1) if mm else rr
                if inner == "1":
                    res.add(True)
                elif inner == "0":
                    res.add(False)
                else:
                    m2 = PRED.match(inner)
                    if m2:
                        res.add((m2.group(1) or m2.group(2)) == w)
                    else:
                        undecided.append(rr)
            if res == {True}:
                accept.add(w)
            elif res != {False}:
                undecided.append("%s -> %s" % (w, sorted(res)))
        if undecided:
            chk.bad("R04.7", m, "the result of %s is not a function of the one ordering ord(a, b): %s" % (m, undecided[:3]), "rscel/src/types/cel_value.rs")
        elif accept == want:
            chk.ok("R04.7", m, sorted(accept))
        else:
            chk.bad("R04.7", m, "%s is true for the orderings %s of ord(a, b); the operator means %s" % (m, sorted(accept), sorted(want)), "rscel/src/types/cel_value.rs")
    sort_guard(chk, F, "R04.8")
    # ---- R04.9 min / max on three arguments: the defining fold with strict replacement (first extreme kept)
    chk.rule("R04.9", "min / max over (a0, a1, a2): every later argument is compared with the extreme found so far (lt for min, gt for max, argument on the left), replaces it only when "
                      "the comparison is true, and the survivor is returned - for all four outcomes of the two comparisons")
    import itertools as _it

    def minmax_rows(fn, op):
        fb = F.body("rscel::context::default_funcs::" + fn)

        class MMPolicy(semtables.LogicPolicy):
            max_paths = 2000

            def limit_for(self, body, blk):
                return 8

            def stub(self, interp, st, path, c, args, t, caller):
                m_ = re.search(r"CelValue::(lt|gt|le|ge)$", path)
                if m_:
                    k_ = len([e for e in st.trace if e[0] == "cmp"]) + 1
                    st.event("cmp", m_.group(1), tuple(symex.render(a_) for a_ in args))
                    return [(st, ("call", "cmp#%d" % k_, tuple(), CVT))]
                return None
        it_ = symex.Interp(F, MMPolicy())
        rows_ = set()
        for st_, r_ in it_.run(fb, [symex.U("this", CVT), ("seq", tuple(symex.U("a%d" % i_, CVT) for i_ in range(3)))]):
            cmps = tuple((e[1], e[2]) for e in st_.trace if e[0] == "cmp")
            outs_ = tuple("T" if c[0] == "ne" else "F" for c in st_.cond if c[0] in ("eq", "ne") and re.search(r"is_true\(cmp#\d+\(\)\)", str(c[1])))
            rows_.add((cmps, outs_, symex.render(r_)))
        return fb, rows_
    for fn_, op_ in (("min_impl", "lt"), ("max_impl", "gt")):
        fb_, got_ = minmax_rows(fn_, op_)
        want_ = set()
        for word in _it.product("TF", repeat=2):
            cur, cmps = "a0", []
            for i_, o_ in enumerate(word, start=1):
                cmps.append((op_, ("a%d" % i_, cur)))
                if o_ == "T":
                    cur = "a%d" % i_
            want_.add((tuple(cmps), tuple(word), cur))
        if got_ == want_:
            chk.ok("R04.9", fn_, {"rows": len(got_)})
        else:
            chk.bad("R04.9", fn_, "%s(a0, a1, a2) does not behave as the fold with strict replacement: implementation only %s, fold only %s"
                    % (fn_.split("_")[0], sorted(got_ - want_, key=str)[:2], sorted(want_ - got_, key=str)[:2]), fb_.file)
    return chk.finish(
        "Structural wiring of the comparison layer: != = !==, a single ord behind < <= > >=, no value-changing casts in ord/eq/type_prop, "
        "sort/min/max wired to the same order with strict replacement. Decision tables of ord / eq / lt / le / gt / ge by symbolic execution: ordering per type pair, symmetric handling of equality, accepted "
        "Ordering constants. Does not decide transitivity on doubles/NaN (std partial_cmp).",
        ["rustc MIR + resolved callees"], ["default features"], technique="MIR callee/cast rules + symbolic execution of ord / eq / relations into decision tables")
