"""C03 numeric operators exact-or-error, profile independent - structural clauses on the MIR of
impl Add/Sub/Mul/Div/Rem/Neg for CelValue and CelValue::type_prop."""
import re
import lib, common

OPS = {"Add": ["i64>::checked_add", "u64>::checked_add"], "Sub": ["i64>::checked_sub", "u64>::checked_sub"],
       "Mul": ["i64>::checked_mul", "u64>::checked_mul"], "Div": ["i64>::checked_div"], "Rem": ["i64>::checked_rem"],
       "Neg": ["i64>::checked_neg"]}
METH = {"Add": "add", "Sub": "sub", "Mul": "mul", "Div": "div", "Rem": "rem", "Neg": "neg"}
WIDEN_OK = {("bool", "i64"): "bool counts as 0/1 (exact)", ("bool", "u64"): "bool counts as 0/1 (exact)",
            ("i64", "f64"): "nearest double (IEEE round-to-nearest, specified)", ("u64", "f64"): "nearest double (specified)"}


def run(chk, tier):
    F = lib.get_facts()
    cg = F.callgraph()
    chk.rule("R03.1", "no profile-dependent arithmetic: no Assert(Overflow/OverflowNeg) in the operator impls; Div/Rem-by-zero asserts only under a dominating `== 0` test")
    chk.rule("R03.2", "no wrapping / lossy conversion: no `as` cast between integer types other than the exact widenings, no wrapping_/overflowing_/unchecked_ call")
    chk.rule("R03.3", "each integer arm is implemented by the checked_* primitive of its operator")
    chk.rule("R03.4", "type_prop widens uint->int only through i64::try_from and casts only bool->int, int->double")
    chk.rule("R03.5", "literal and bound operands meet the same operator: the constant folder and the VM both call the one impl")
    nb = 0
    for op, prims in OPS.items():
        top = F.body("<rscel::types::cel_value::CelValue as std::ops::%s>::%s" % (op, METH[op]))
        bodies = common.with_closures(F, top)
        nb += len(bodies)
        calls = {}
        for b in bodies:
            for (blk, ak, aop, ty, t) in common.asserts_of(b):
                key = "%s|%s %s %s" % (b.path, ak, aop or "", ty)
                if ak in ("DivisionByZero", "RemainderByZero") and common.zero_test_dominates(b, blk, ty):
                    chk.ok("R03.1", key, "dominated by an `== 0` test on %s" % ty)
                elif ak in ("Overflow", "OverflowNeg") and op in ("Div", "Rem") and ty == "u64":
                    chk.ok("R03.1", key)
                else:
                    chk.bad("R03.1", key, "unchecked %s %s on %s in %s: panics with overflow checks, wraps without (profile-dependent result)" % (ak, aop or "", ty, b.path),
                            "%s:%d" % (t["file"], t["line"]))
            common.check_casts(chk, "R03.2", b, {}, "wrapping/lossy numeric conversion in operator %s" % op)
            common.forbid_calls(chk, "R03.2", b, r"::(wrapping_|overflowing_|unchecked_)\w+$", "silently wrapping primitive in operator %s" % op)
            calls.update(common.callees_of(b))
        for p in prims:
            hit = [c for c in calls if c.endswith(p.split(">::")[1]) and ("impl " + p.split(">::")[0] + ">") in c]
            if hit:
                chk.ok("R03.3", "%s|%s" % (op, p), hit[0])
            else:
                chk.bad("R03.3", "%s|%s" % (op, p), "operator %s no longer reaches %s (exact-or-error primitive)" % (op, p), top.file)
        if op != "Neg":
            if any(c.endswith("CelValue::type_prop") for c in calls):
                chk.ok("R03.4", "%s|type_prop applied" % op)
            else:
                chk.bad("R03.4", "%s|type_prop applied" % op, "operator %s does not widen its operands through type_prop" % op, top.file)
        # R03.5 callers
        callers = {F.bodies[x].path for x, ys in cg.edges.items() if top.id in ys and x in F.bodies}
        vm = any("interp::interp::Interpreter" in c for c in callers)
        fold = any("compiler::compiler::CelCompiler" in c for c in callers)
        if vm and (fold or op == "Neg"):  # unary minus is never folded: the compiler always emits ByteCode::Neg
            chk.ok("R03.5", "%s|vm+folder" % op, sorted(lib.short(c) for c in callers)[:4])
        else:
            chk.bad("R03.5", "%s|vm+folder" % op, "operator %s is not shared by the VM (%s) and the constant folder (%s)" % (op, vm, fold), top.file)
    tp = F.body("rscel::types::cel_value::CelValue::type_prop")
    for b in common.with_closures(F, tp):
        nb += 1
        common.check_casts(chk, "R03.4", b, WIDEN_OK, "type_prop widening that can change the numeric value")
        for (blk, ak, aop, ty, t) in common.asserts_of(b):
            chk.bad("R03.1", "%s|%s" % (b.path, ak), "profile-dependent arithmetic in type_prop", "%s:%d" % (t["file"], t["line"]))
    tf = sum(n for c, n in common.callees_of(tp).items() if c.endswith("TryFrom<u64> for i64>::try_from"))
    chk.floor("R03.4", "i64::try_from(u64) in type_prop (both operand orders)", tf, 2)
    chk.analysed.update({"bodies": nb, "operators": list(OPS)})
    chk.rule("R03.6", "unary minus: checked negation on int, IEEE sign flip on double (so negative literals denote what they spell, incl. -0.0), error otherwise")
    # ---- unary minus decision table (symbolic execution): int -> checked_neg (None = error), double -> the IEEE sign flip
    # (MIR Neg on f64: -(+0.0) = -0.0, which `0.0 - x` is not), every other operand an error, a failed operand is kept
    import symex, semtables
    nb_ = F.body("<rscel::types::cel_value::CelValue as std::ops::Neg>::neg")
    it_ = symex.Interp(F, semtables.LogicPolicy())
    rows_ = {}
    for st_, r_ in it_.run(nb_, [symex.U("a", "rscel::types::cel_value::CelValue")]):
        pos = [c[2] for c in st_.cond if c[0] == "variant" and c[3] == "a"]
        opt = [c[2] for c in st_.cond if c[0] == "variant" and "checked_neg" in str(c[3])]
        err = [c for c in st_.cond if c[0] in ("eq", "ne") and c[1] == "CelValue::is_err(a)"]
        failed = bool(err) and not (err[0][0] == "eq" and err[0][2] == 0)
        key_ = "failed" if failed else ((pos[0] if pos else "other") + ("/" + opt[0] if opt else ""))
        rows_[key_] = symex.render(r_)
    int_ok = re.compile(r"i64::checked_neg\(a\.Int\.0\)|i64::checked_sub\(0, a\.Int\.0\)|^Sub::sub\(CelValue::from_int\(0\), a\)$|^CelValue::from_err\(")
    int_rows = {k_: v_ for k_, v_ in rows_.items() if k_.startswith("Int")}
    if int_rows and all(int_ok.search(v_) for v_ in int_rows.values()) and any("checked_" in v_ or "Sub::sub" in v_ for v_ in int_rows.values()):
        chk.ok("R03.6", "neg|Int", sorted(int_rows.values())[0][:80])
    else:
        chk.bad("R03.6", "neg|Int", "unary minus on an int must be a checked negation (error on the minimum int): %s" % int_rows, nb_.file)
    want_ = {"failed": r"^a$", "Float": r"^From::from<CelValue><-f64\(Neg\(a\.Float\.0\)\)$", "other": r"^CelValue::from_err\("}
    for k_, rx_ in want_.items():
        g_ = rows_.get(k_)
        if g_ is not None and re.match(rx_, g_):
            chk.ok("R03.6", "neg|" + k_, g_[:80])
        else:
            chk.bad("R03.6", "neg|" + k_, "unary minus on %s yields %s; expected %s (double: the IEEE sign flip, so that -(0.0) is -0.0 - `0.0 - x` gives +0.0; anything else an error)" % (k_, g_, rx_), nb_.file)
    for k_ in set(rows_) - set(want_) - set(int_rows):
        chk.bad("R03.6", "neg|" + k_, "unary minus has an unexpected case %s -> %s" % (k_, rows_[k_][:100]), nb_.file)
    # ---- widening decision table (symbolic execution of type_prop over every variant pair)
    chk.rule("R03.7", "type_prop's table: int/uint meet as int through i64::try_from (the pair stays mixed when the uint has no int value), bool meets int/uint as 0/1 of that type, "
                      "anything numeric meets a double as `as f64` (bool as the constants 0.0 / 1.0), every other pair is returned unchanged and in order")
    tpb = F.body("rscel::types::cel_value::CelValue::type_prop")
    CVT_ = "rscel::types::cel_value::CelValue"
    it_ = symex.Interp(F, semtables.LogicPolicy())
    tp_rows = {}
    INTO = r"(?:Into::into<T><-U|From::from<CelValue><-\w+|CelValue::from_\w+)"

    def side(txt, me, other):
        if txt == me or re.match(r"^CelValue::\w+\{\?%s\}$" % me, txt):
            return "same"
        if txt == other or re.match(r"^CelValue::\w+\{\?%s\}$" % other, txt):
            return "SWAPPED"
        m_ = re.match(r"^%s\((.*)\)$" % INTO, txt)
        if not m_:
            return txt
        inner = m_.group(1)
        m2 = re.match(r"^TryFrom<i64<-u64>::try_from\(%s\.UInt\.0\)\.Ok\.0$" % me, inner)
        if m2:
            return "try_from"
        m2 = re.match(r"^as (i64|u64|f64)\(%s\.(Int|UInt|Bool)\.0\)$" % me, inner)
        if m2:
            return "as " + m2.group(1)
        m2 = re.match(r"^const ([01])f64$", inner)
        if m2:
            return m2.group(1) + ".0"
        return txt
    for st_, r_ in it_.run(tpb, [symex.U("a", CVT_), symex.U("b", CVT_)]):
        va = [c[2] for c in st_.cond if c[0] == "variant" and c[3] == "a"]
        vb = [c[2] for c in st_.cond if c[0] == "variant" and c[3] == "b"]
        tf = [c[2] for c in st_.cond if c[0] == "variant" and "try_from" in str(c[3])]
        bl = [("1" if c[0] == "ne" else "0") for c in st_.cond if c[0] in ("eq", "ne") and re.match(r"^[ab]\.Bool\.0$", str(c[1]))]
        key_ = (va[0] if va else "other", vb[0] if vb else "other") + tuple(tf) + tuple(bl)
        if r_[0] != "tup" or len(r_[1]) != 2:
            chk.bad("R03.7", "type_prop|%s" % (key_,), "type_prop returns %s" % symex.render(r_)[:100], tpb.file)
            continue
        tp_rows.setdefault(key_, set()).add((side(symex.render(r_[1][0]), "a", "b"), side(symex.render(r_[1][1]), "b", "a")))
    same = ("same", "same")
    want_tp = {("Int", "Int"): same, ("UInt", "UInt"): same, ("Float", "Float"): same, ("Bool", "Bool"): same,
               ("Int", "UInt", "Ok"): ("same", "try_from"), ("Int", "UInt", "Err"): same,
               ("UInt", "Int", "Ok"): ("try_from", "same"), ("UInt", "Int", "Err"): same,
               ("Int", "Float"): ("as f64", "same"), ("UInt", "Float"): ("as f64", "same"),
               ("Float", "Int"): ("same", "as f64"), ("Float", "UInt"): ("same", "as f64"),
               ("Int", "Bool"): ("same", "as i64"), ("UInt", "Bool"): ("same", "as u64"),
               ("Bool", "Int"): ("as i64", "same"), ("Bool", "UInt"): ("as u64", "same"),
               ("Float", "Bool", "0"): ("same", "0.0"), ("Float", "Bool", "1"): ("same", "1.0"),
               ("Bool", "Float", "0"): ("0.0", "same"), ("Bool", "Float", "1"): ("1.0", "same")}
    alt_tp = {("Float", "Bool"): ("same", "as f64"), ("Bool", "Float"): ("as f64", "same")}      # an `as` chain from bool is equally exact
    for key_, got_ in sorted(tp_rows.items()):
        name_ = "type_prop|" + ",".join(key_)
        if key_ in want_tp or key_ in alt_tp:
            w_ = want_tp.get(key_) or alt_tp[key_]
        elif "other" in key_[:2] and len(key_) == 2:
            w_ = same
        else:
            chk.bad("R03.7", name_, "unexpected case in the widening table: %s -> %s" % (key_, sorted(got_)), tpb.file)
            continue
        if got_ == {w_}:
            chk.ok("R03.7", name_, w_)
        else:
            chk.bad("R03.7", name_, "operands (%s) are widened to %s; the fixed rule is %s" % (", ".join(key_), sorted(got_), w_), tpb.file)
    for key_ in want_tp:
        if key_ not in tp_rows and not (key_[:2] in alt_tp and key_[:2] in tp_rows):
            chk.bad("R03.7", "type_prop|" + ",".join(key_), "the widening table has no case for (%s): the pair reaches the operators unwidened" % ", ".join(key_), tpb.file)
    chk.floor("R03.7", "rows of the widening table", len(tp_rows), 20)
    # ---- operator decision tables (symbolic execution of each binary operator impl over every pair type_prop can hand it)
    chk.rule("R03.8", "each binary operator's table: int and uint pairs go through the checked primitive on (left, right) with None -> error, double pairs through the IEEE operation on (left, right), "
                      "`/` and `%` test the right operand against zero first, a failed left operand wins over a failed right one, and every pair outside the numeric diagonal, "
                      "string/bytes/list concatenation (left then right) and timestamp/duration arithmetic is an error")

    class OpPolicy(semtables.LogicPolicy):
        max_paths = 8000

        def stub(self, interp, st, path, c, args, t, caller):
            if path.endswith("CelValue::type_prop"):
                return [(st, ("tup", (symex.U("ta", CVT_), symex.U("tb", CVT_))))]
            return None
    SYM = {"Add": "Add", "Sub": "Sub", "Mul": "Mul", "Div": "Div", "Rem": "Rem"}
    PRIM = {"Add": "checked_add", "Sub": "checked_sub", "Mul": "checked_mul", "Div": "checked_div", "Rem": "checked_rem"}
    NONNUM_OK = {"Add": {("String", "String"), ("Bytes", "Bytes"), ("List", "List"), ("TimeStamp", "Duration"), ("Duration", "TimeStamp"), ("Duration", "Duration")},
                 "Sub": {("TimeStamp", "Duration"), ("Duration", "Duration"), ("TimeStamp", "TimeStamp"), ("Duration", "TimeStamp")}}
    n_rows = 0
    for op_ in ("Add", "Sub", "Mul", "Div", "Rem"):
        ob = F.body("<rscel::types::cel_value::CelValue as std::ops::%s>::%s" % (op_, METH[op_]))
        it_ = symex.Interp(F, OpPolicy())
        table_ = {}
        for st_, r_ in it_.run(ob, [symex.U("a", CVT_), symex.U("b", CVT_)]):
            rr_ = symex.render(r_)
            ea = [c for c in st_.cond if c[0] in ("eq", "ne") and c[1] == "CelValue::is_err(a)"]
            eb = [c for c in st_.cond if c[0] in ("eq", "ne") and c[1] == "CelValue::is_err(b)"]
            a_failed = bool(ea) and ea[0][0] == "ne"
            b_failed = bool(eb) and eb[0][0] == "ne"
            if rr_ in ("a", "b"):
                if (rr_ == "a" and a_failed) or (rr_ == "b" and b_failed and ea and not a_failed):
                    chk.ok("R03.8", "%s|failed operand %s" % (op_, rr_))
                else:
                    chk.bad("R03.8", "%s|failed operand %s" % (op_, rr_), "`%s` returns operand %s on a path where %s: a failed left operand must win, then a failed right one" % (op_, rr_, [c for c in st_.cond if "is_err" in str(c[1])]), ob.file)
                continue
            va = [c[2] for c in st_.cond if c[0] == "variant" and c[3] == "ta"]
            vb = [c[2] for c in st_.cond if c[0] == "variant" and c[3] == "tb"]
            zero = [("zero" if c[0] == "ne" else "nonzero") for c in st_.cond if c[0] in ("eq", "ne") and re.match(r"^Eq\(tb\.(Int|UInt)\.0, 0\)$", str(c[1]))]
            zl = [c for c in st_.cond if c[0] in ("eq", "ne") and re.match(r"^Eq\(ta\.(Int|UInt)\.0, 0\)$", str(c[1]))]
            if zl:
                chk.bad("R03.8", "%s|zero test on the left operand" % op_, "`%s` tests its LEFT operand against zero" % op_, ob.file)
            opt = [c[2] for c in st_.cond if c[0] == "variant" and "checked_" in str(c[3]) and c[1] == "Option"]
            key_ = (va[0] if va else "other", vb[0] if vb else "other")
            table_.setdefault(key_, []).append((tuple(zero), tuple(opt), rr_))
        n_rows += sum(len(v) for v in table_.values())
        for ty_, prim_ty in (("Int", "i64"), ("UInt", "u64")):
            rows2 = table_.get((ty_, ty_), [])
            call_ = "%s::%s(ta.%s.0, tb.%s.0)" % (prim_ty, PRIM[op_], ty_, ty_)
            plain_ = "%s(ta.%s.0, tb.%s.0)" % (SYM[op_], ty_, ty_)
            ok_ = bool(rows2)
            why_ = []
            seen_val = False
            for zero, opt, rr_ in rows2:
                if op_ in ("Div", "Rem"):
                    if zero == ("zero",):
                        if not rr_.startswith("CelValue::from_err("):
                            ok_ = False
                            why_.append("a zero right operand yields %s" % rr_[:60])
                        continue
                    if zero != ("nonzero",):
                        ok_ = False
                        why_.append("a result is computed without testing the right operand against zero: %s" % rr_[:60])
                        continue
                if opt == ("None",):
                    if not rr_.startswith("CelValue::from_err("):
                        ok_ = False
                        why_.append("an unrepresentable result yields %s" % rr_[:60])
                elif opt == ("Some",):
                    if re.match(r"^%s\(%s\.Some\.0\)$" % (INTO, re.escape(call_)), rr_):
                        seen_val = True
                    else:
                        ok_ = False
                        why_.append("the representable case yields %s, expected %s" % (rr_[:80], call_))
                elif op_ in ("Div", "Rem") and ty_ == "UInt" and re.match(r"^%s\(%s\)$" % (INTO, re.escape(plain_)), rr_):
                    seen_val = True          # unsigned / and % cannot overflow once the divisor is non-zero
                else:
                    ok_ = False
                    why_.append("unchecked result %s" % rr_[:80])
            if ok_ and seen_val:
                chk.ok("R03.8", "%s|%s,%s" % (op_, ty_, ty_), call_)
            else:
                chk.bad("R03.8", "%s|%s,%s" % (op_, ty_, ty_), "`%s` on two %s values: %s" % (op_, ty_, why_ or "no value-producing case found"), ob.file)
        rows2 = table_.get(("Float", "Float"), [])
        if op_ == "Rem":
            pass_ = all(rr_.startswith("CelValue::from_err(") for _, _, rr_ in rows2) or all(re.match(r"^%s\(Rem\(ta\.Float\.0, tb\.Float\.0\)\)$" % INTO, rr_) for _, _, rr_ in rows2)
        else:
            pass_ = bool(rows2) and all(re.match(r"^%s\(%s\(ta\.Float\.0, tb\.Float\.0\)\)$" % (INTO, SYM[op_]), rr_) and not z for z, _, rr_ in rows2)
        if pass_:
            chk.ok("R03.8", "%s|Float,Float" % op_)
        else:
            chk.bad("R03.8", "%s|Float,Float" % op_, "`%s` on two doubles must be the IEEE operation on (left, right) with no special cases: %s" % (op_, [r3[:80] for _, _, r3 in rows2]), ob.file)
        for key_, rows2 in sorted(table_.items()):
            if key_[0] == key_[1] and key_[0] in ("Int", "UInt", "Float"):
                continue
            vals = [rr_ for _, _, rr_ in rows2 if not rr_.startswith("CelValue::from_err(")]
            if not vals:
                chk.ok("R03.8", "%s|%s,%s" % ((op_,) + key_), "error")
                continue
            if key_ in NONNUM_OK.get(op_, ()):
                if key_[0] in ("String", "Bytes", "List") and not all(0 <= v.find("ta.") < v.find("tb.") for v in vals):
                    chk.bad("R03.8", "%s|%s,%s" % ((op_,) + key_), "concatenation must keep the left operand first: %s" % vals, ob.file)
                else:
                    chk.ok("R03.8", "%s|%s,%s" % ((op_,) + key_), "non-numeric case outside this property (concatenation / time arithmetic)")
                continue
            chk.bad("R03.8", "%s|%s,%s" % ((op_,) + key_), "`%s` between %s and %s must be an error, but yields %s" % (op_, key_[0], key_[1], vals[:2]), ob.file)
    chk.floor("R03.8", "rows of the five operator tables", n_rows, 90)
    return chk.finish(
        "MIR of the six arithmetic operator impls (incl. their error_prop_or closures) and type_prop: exhaustive over their Assert terminators, "
        "numeric casts and resolved callees. Decides that no integer arm can wrap or depend on the build profile and that widening is value-preserving; "
        "plus decision tables of unary minus, type_prop and the five binary operators by symbolic execution. Does not compute numeric results.",
        ["rustc MIR (overflow checks appear as Assert terminators at mir-opt-level 0)", "std checked_* / try_from contracts"],
        ["default feature set (type_prop on)"], technique="MIR assert/cast/callee rules over operator impls + symbolic-execution decision tables of neg, type_prop and + - * / %")
