"""C03 numeric operators exact-or-error, profile independent - structural clauses on the MIR of
impl Add/Sub/Mul/Div/Rem/Neg for CelValue and CelValue::type_prop."""
import re
import lib, common

OPS = {"Add": ["i64>::checked_add", "u64>::checked_add"], "Sub": ["i64>::checked_sub", "u64>::checked_sub"],
       "Mul": ["i64>::checked_mul", "u64>::checked_mul"], "Div": ["i64>::checked_div"], "Rem": ["i64>::checked_rem"],
       "Neg": ["i64>::checked_neg"]}
METH = {"Add": "add", "Sub": "sub", "Mul": "mul", "Div": "div", "Rem": "rem", "Neg": "neg"}
WIDEN_OK = {("bool", "i64"): "bool counts as 0/1 (exact)", ("bool", "u64"): "bool counts as 0/1 (exact)",
            ("i64", "f64"): "nearest double (IEEE round-to-nearest, specified)", ("u64", "f64"): "nearest double (specified)"}


def run(chk, tier):
    F = lib.get_facts()
    cg = F.callgraph()
    chk.rule("R03.1", "no profile-dependent arithmetic: no Assert(Overflow/OverflowNeg) in the operator impls; Div/Rem-by-zero asserts only under a dominating `== 0` test")
    chk.rule("R03.2", "no wrapping / lossy conversion: no `as` cast between integer types other than the exact widenings, no wrapping_/overflowing_/unchecked_ call")
    chk.rule("R03.3", "each integer arm is implemented by the checked_* primitive of its operator")
    chk.rule("R03.4", "type_prop widens uint->int only through i64::try_from and casts only bool->int, int->double")
    chk.rule("R03.5", "literal and bound operands meet the same operator: the constant folder and the VM both call the one impl")
    nb = 0
    for op, prims in OPS.items():
        top = F.body("<rscel::types::cel_value::CelValue as std::ops::%s>::%s" % (op, METH[op]))
        bodies = common.with_closures(F, top)
        nb += len(bodies)
        calls = {}
        for b in bodies:
            for (blk, ak, aop, ty, t) in common.asserts_of(b):
                key = "%s|%s %s %s" % (b.path, ak, aop or "", ty)
                if ak in ("DivisionByZero", "RemainderByZero") and common.zero_test_dominates(b, blk, ty):
                    chk.ok("R03.1", key, "dominated by an `== 0` test on %s" % ty)
                elif ak in ("Overflow", "OverflowNeg") and op in ("Div", "Rem") and ty == "u64":
                    chk.ok("R03.1", key)
                else:
                    chk.bad("R03.1", key, "unchecked %s %s on %s in %s: panics with overflow checks, wraps without (profile-dependent result)" % (ak, aop or "", ty, b.path),
                            "%s:%d" % (t["file"], t["line"]))
            common.check_casts(chk, "R03.2", b, {}, "wrapping/lossy numeric conversion in operator %s" % op)
            common.forbid_calls(chk, "R03.2", b, r"::(wrapping_|overflowing_|unchecked_)\w+$", "silently wrapping primitive in operator %s" % op)
            calls.update(common.callees_of(b))
        for p in prims:
            hit = [c for c in calls if c.endswith(p.split(">::")[1]) and ("impl " + p.split(">::")[0] + ">") in c]
            if hit:
                chk.ok("R03.3", "%s|%s" % (op, p), hit[0])
            else:
                chk.bad("R03.3", "%s|%s" % (op, p), "operator %s no longer reaches %s (exact-or-error primitive)" % (op, p), top.file)
        if op != "Neg":
            if any(c.endswith("CelValue::type_prop") for c in calls):
                chk.ok("R03.4", "%s|type_prop applied" % op)
            else:
                chk.bad("R03.4", "%s|type_prop applied" % op, "operator %s does not widen its operands through type_prop" % op, top.file)
        # R03.5 callers
        callers = {F.bodies[x].path for x, ys in cg.edges.items() if top.id in ys and x in F.bodies}
        vm = any("interp::interp::Interpreter" in c for c in callers)
        fold = any("compiler::compiler::CelCompiler" in c for c in callers)
        if vm and (fold or op == "Neg"):  # unary minus is never folded: the compiler always emits ByteCode::Neg
            chk.ok("R03.5", "%s|vm+folder" % op, sorted(lib.short(c) for c in callers)[:4])
        else:
            chk.bad("R03.5", "%s|vm+folder" % op, "operator %s is not shared by the VM (%s) and the constant folder (%s)" % (op, vm, fold), top.file)
    tp = F.body("rscel::types::cel_value::CelValue::type_prop")
    for b in common.with_closures(F, tp):
        nb += 1
        common.check_casts(chk, "R03.4", b, WIDEN_OK, "type_prop widening that can change the numeric value")
        for (blk, ak, aop, ty, t) in common.asserts_of(b):
            chk.bad("R03.1", "%s|%s" % (b.path, ak), "profile-dependent arithmetic in type_prop", "%s:%d" % (t["file"], t["line"]))
    tf = sum(n for c, n in common.callees_of(tp).items() if c.endswith("TryFrom<u64> for i64>::try_from"))
    chk.floor("R03.4", "i64::try_from(u64) in type_prop (both operand orders)", tf, 2)
    chk.analysed.update({"bodies": nb, "operators": list(OPS)})
    chk.rule("R03.6", "unary minus: checked negation on int, IEEE sign flip on double (so negative literals denote what they spell, incl. -0.0), error otherwise")
    # ---- unary minus decision table (symbolic execution): int -> checked_neg (None = error), double -> the IEEE sign flip
    # (MIR Neg on f64: -(+0.0) = -0.0, which `0.0 - x` is not), every other operand an error, a failed operand is kept
    import symex, semtables
    nb_ = F.body("<rscel::types::cel_value::CelValue as std::ops::Neg>::neg")
    it_ = symex.Interp(F, semtables.LogicPolicy())
    rows_ = {}
    for st_, r_ in it_.run(nb_, [symex.U("a", "rscel::types::cel_value::CelValue")]):
        pos = [c[2] for c in st_.cond if c[0] == "variant" and c[3] == "a"]
        opt = [c[2] for c in st_.cond if c[0] == "variant" and "checked_neg" in str(c[3])]
        err = [c for c in st_.cond if c[0] in ("eq", "ne") and c[1] == "CelValue::is_err(a)"]
        failed = bool(err) and not (err[0][0] == "eq" and err[0][2] == 0)
        key_ = "failed" if failed else ((pos[0] if pos else "other") + ("/" + opt[0] if opt else ""))
        rows_[key_] = symex.render(r_)
    int_ok = re.compile(r"i64::checked_neg\(a\.Int\.0\)|i64::checked_sub\(0, a\.Int\.0\)|^Sub::sub\(CelValue::from_int\(0\), a\)$|^CelValue::from_err\(")
    int_rows = {k_: v_ for k_, v_ in rows_.items() if k_.startswith("Int")}
    if int_rows and all(int_ok.search(v_) for v_ in int_rows.values()) and any("checked_" in v_ or "Sub::sub" in v_ for v_ in int_rows.values()):
        chk.ok("R03.6", "neg|Int", sorted(int_rows.values())[0][:80])
    else:
        chk.bad("R03.6", "neg|Int", "unary minus on an int must be a checked negation (error on the minimum int): %s" % int_rows, nb_.file)
    want_ = {"failed": r"^a$", "Float": r"^From::from<CelValue><-f64\(Neg\(a\.Float\.0\)\)$", "other": r"^CelValue::from_err\("}
    for k_, rx_ in want_.items():
        g_ = rows_.get(k_)
        if g_ is not None and re.match(rx_, g_):
            chk.ok("R03.6", "neg|" + k_, g_[:80])
        else:
            chk.bad("R03.6", "neg|" + k_, "unary minus on %s yields %s; expected %s (double: the IEEE sign flip, so that -(0.0) is -0.0 - `0.0 - x` gives +0.0; anything else an error)" % (k_, g_, rx_), nb_.file)
    for k_ in set(rows_) - set(want_) - set(int_rows):
        chk.bad("R03.6", "neg|" + k_, "unary minus has an unexpected case %s -> %s" % (k_, rows_[k_][:100]), nb_.file)
    return chk.finish(
        "MIR of the six arithmetic operator impls (incl. their error_prop_or closures) and type_prop: exhaustive over their Assert terminators, "
        "numeric casts and resolved callees. Decides that no integer arm can wrap or depend on the build profile and that widening is value-preserving; "
        "does not compute numeric results.",
        ["rustc MIR (overflow checks appear as Assert terminators at mir-opt-level 0)", "std checked_* / try_from contracts"],
        ["default feature set (type_prop on)"], technique="MIR assert/cast/callee rules over operator impls")
