"""C08 has()/coalesce(): absent data vs every other failure - structural clauses."""
import lib, common

ABSENT = {"Binding", "Attribute"}
# who may construct an error of the absent class, confirmed by reading (one line of reason each)
BINDING_CALLERS = {
    "rscel::interp::interp::InterpStack::<'a, 'b>::pop": "identifier resolved to neither type, variable nor program",
    "rscel::interp::interp::Interpreter::<'a>::run_program": "named program not in the context",
}
ATTRIBUTE_CALLERS = {
    "rscel::interp::interp::Interpreter::<'a>::run_raw": "Access on a map without that field / method",
    "rscel::types::cel_value::CelValue::index::{closure#0}": "map[key] with absent key",
    "<rscel::types::cel_value::CelValue as rscel::types::cel_value_dyn::CelValueDyn>::access": "field access on a value without fields",
}
RAW_CONSTRUCTORS = {"rscel::types::cel_error::CelError::binding", "rscel::types::cel_error::CelError::attribute",
                    "rscel::types::cel_value::CelValue::binding_error", "rscel::types::cel_value::CelValue::attribute",
                    "<rscel::types::cel_error::CelError as std::clone::Clone>::clone"}


def error_partitions(F, b):
    """switches of b on the discriminant of a CelError place -> list of (set(variant names), same_target, otherwise!=target)"""
    ce = [a for a in F.adts.values() if a["path"] == "rscel::types::cel_error::CelError"][0]
    name = {v["discr"]: v["name"] for v in ce["variants"]}
    discr_locals = {}
    for i, s in b.stmts():
        rv = s.get("rv", {})
        if rv.get("k") == "discr" and rv.get("ty") == "rscel::types::cel_error::CelError" and "p" not in s["place"]:
            discr_locals[s["place"]["l"]] = i
    out = []
    for i, t in b.terms("switch"):
        l = lib.op_local(t["discr"])
        if l in discr_locals:
            cases = {name.get(c[0], c[0]) for c in t["cases"]}
            targets = {c[1] for c in t["cases"]}
            out.append((cases, len(targets) == 1, t["otherwise"] not in targets, i))
    return out


def run(chk, tier):
    F = lib.get_facts()
    cg = F.callgraph()
    chk.rule("R08.1", "has / coalesce partition CelError into exactly {Binding, Attribute} (absent) vs everything else (propagated) - decided on the symbolic decision tables of R08.4")
    chk.rule("R08.2", "only the frozen set of sites may construct a Binding / Attribute error (nothing else can be mistaken for absence)")
    chk.rule("R08.3", "has/coalesce are run-time macros only: not in the compile-time macro table (absence is not decidable at compile time)")
    # (the partition {Binding, Attribute} vs everything else is decided on the decision tables of R08.4, wherever the match is written)
    # R08.2
    for b in F.bodies.values():
        if b.pkg != "rscel":
            continue
        for i, s in b.stmts():
            rv = s.get("rv", {})
            if rv.get("k") == "agg" and rv.get("adt", "").endswith("cel_error::CelError") and rv["variant"] in ABSENT:
                if b.path in RAW_CONSTRUCTORS or "_serde::Deserialize" in b.path:
                    chk.ok("R08.2", "ctor|%s|%s" % (rv["variant"], b.path))
                else:
                    chk.bad("R08.2", "ctor|%s|%s" % (rv["variant"], b.path), "%s builds CelError::%s directly" % (b.path, rv["variant"]), b.file)
    for ctor, allowed in (("rscel::types::cel_error::CelError::binding", BINDING_CALLERS), ("rscel::types::cel_error::CelError::attribute", ATTRIBUTE_CALLERS),
                          ("rscel::types::cel_value::CelValue::binding_error", {}), ("rscel::types::cel_value::CelValue::attribute", {})):
        t = F.body(ctor)
        callers = sorted(F.bodies[x].path for x, ys in cg.edges.items() if t.id in ys and x in F.bodies)
        def moved_from_allowed(path_, depth_=0):
            """a module-private helper that only the reviewed sites call: their code, moved"""
            bs_ = [x_ for x_ in F.bodies.values() if x_.path == path_ and x_.pkg == "rscel"]
            if len(bs_) != 1 or depth_ > 2 or not str(bs_[0].d.get("vis", "")).startswith("Restricted") or "DefId(0:0 " in str(bs_[0].d.get("vis", "")):
                return None
            import lenfacts as _lf
            if _lf.address_taken(F, bs_[0].id):
                return None
            up_ = sorted(set(F.bodies[x].path for x, ys in cg.edges.items() if bs_[0].id in ys and x in F.bodies and x != bs_[0].id))
            if up_ and all(u_ in allowed or moved_from_allowed(u_, depth_ + 1) for u_ in up_):
                return up_
            return None
        for c in callers:
            if c in allowed:
                chk.ok("R08.2", "caller|%s|%s" % (lib.short(ctor), c), allowed[c])
            elif moved_from_allowed(c):
                chk.ok("R08.2", "caller|%s|%s" % (lib.short(ctor), c), "private helper called only by reviewed sites: %s" % [lib.short(u_) for u_ in moved_from_allowed(c)])
            else:
                chk.bad("R08.2", "caller|%s|%s" % (lib.short(ctor), c),
                        "%s now raises an absent-class error through %s: has()/coalesce() would swallow that failure" % (c, lib.short(ctor)), "")
    # R08.4 decision tables by symbolic execution: coalesce over two arguments, has over one
    chk.rule("R08.4", "coalesce evaluates its arguments left to right and stops at the first that is neither null nor absent; every argument is classified the same way; "
                      "nothing qualifies -> null; has(e): Ok -> true, absent -> false, other failure propagates (decision tables by symbolic execution)")
    import symex, semtables, itertools

    class MacroPolicy(semtables.LogicPolicy):
        max_paths = 20000
        loop_limit = 8

        def inline(self, path, body):
            return path.startswith("rscel::context::default_macros::") or "::{closure" in path

        def stub(self, interp, st, path, c, args, t, caller):
            if path.endswith("Interpreter::<'a>::run_raw"):
                n = sum(1 for e in st.trace if e[0] == "run")
                st.event("run", n, symex.render(args[1]), symex.render(args[0]), symex.render(args[2]) if len(args) > 2 else "")
                return [(st, symex.U("r%d" % n, "std::result::Result<rscel::types::cel_value::CelValue, rscel::types::cel_error::CelError>"))]
            return None

    def facts_of(st, origin):
        """(positive variant or None, set of excluded variants) the path knows about the value named `origin`"""
        pos, neg = None, set()
        for c in st.cond:
            if c[0] == "variant" and c[3] == origin:
                pos = c[2]
            elif c[0] == "variant-not" and c[3] == origin:
                neg |= set(c[2])
        return pos, neg

    def outcome_class(st, n):
        """class of the n-th evaluation on this path: 'val' | 'null' | 'absent' | 'fail' | None (not constrained)"""
        rp, _ = facts_of(st, "r%d" % n)
        if rp == "Ok":
            vp, vn = facts_of(st, "r%d.Ok.0" % n)
            if vp == "Null":
                return "null"
            if vp is not None or "Null" in vn:
                return "val"
            return "ok?"
        if rp == "Err":
            ep, en = facts_of(st, "r%d.Err.0" % n)
            if ep in ("Binding", "Attribute"):
                return "absent"
            if ep is not None or {"Binding", "Attribute"} <= en:
                return "fail"
            return "err?"
        return None

    cb = F.body("rscel::context::default_macros::coalesce::coalesce_impl")
    for nargs in (0, 1, 2, 3):
        it = symex.Interp(F, MacroPolicy())
        try:
            outs = it.run(cb, [symex.U("ctx", "&Interpreter"), symex.U("this", "CelValue"), ("seq", tuple(symex.U("b%d" % i) for i in range(nargs)))])
        except symex.TooManyPaths:
            chk.bad("R08.4", "coalesce|%d args" % nargs, "symbolic execution of coalesce_impl did not finish", cb.file)
            continue
        got = {}
        for st, r in outs:
            runs = [e for e in st.trace if e[0] == "run"]
            classes = tuple(outcome_class(st, i) for i in range(len(runs)))
            order = [e[2] for e in runs]
            recv = set(e[3] for e in runs)
            got[classes] = (order, symex.render(r), recv, set(e[4] for e in runs))
        # expected decision list
        want = {}
        def rec(prefix):
            k = len(prefix)
            if k == nargs:
                want[tuple(prefix)] = "CelValue::from_null()"
                return
            for cls in ("val", "null", "absent", "fail"):
                if cls == "val":
                    want[tuple(prefix + [cls])] = "r%d.Ok.0" % k
                elif cls == "fail":
                    want[tuple(prefix + [cls])] = "CelValue::from_err(r%d.Err.0)" % k
                else:
                    rec(prefix + [cls])
        rec([])
        okc = set(got) == set(want)
        detail = []
        for cl, res in want.items():
            g = got.get(cl)
            if g is None:
                okc = False
                detail.append("missing case %s" % (cl,))
                continue
            order, rr, recv, flags = g
            if rr != res or order != ["b%d" % i for i in range(len(cl))] or recv - {"ctx"} or flags - {"1"}:
                okc = False
                detail.append("%s -> %s after evaluating %s (expected %s)" % (cl, rr, order, res))
        for cl in set(got) - set(want):
            detail.append("unexpected case %s -> %s" % (cl, got[cl][1]))
        if okc:
            chk.ok("R08.4", "coalesce|%d args" % nargs, "%d decision paths" % len(got))
        else:
            chk.bad("R08.4", "coalesce|%d args" % nargs, "coalesce(%s) does not follow the decision list (first argument that is neither null nor absent; other failures propagate; left to right; nothing after the chosen one; null when nothing qualifies): %s" % (", ".join("e%d" % i for i in range(nargs)), "; ".join(detail[:4])), cb.file)
    hb = F.body("rscel::context::default_macros::has::has_impl")
    it = symex.Interp(F, MacroPolicy())
    outs = it.run(hb, [symex.U("ctx", "&Interpreter"), symex.U("this", "CelValue"), ("seq", (symex.U("b0"),))])
    goth = {}
    for st, r in outs:
        runs = [e for e in st.trace if e[0] == "run"]
        cl = outcome_class(st, 0)
        if cl == "ok?":
            cl = "ok"
        elif cl in ("val", "null"):
            cl = "ok-inspected:" + cl
        goth[cl] = (symex.render(r), [e[2] for e in runs], set(e[3] for e in runs))
    wanth = {"ok": "CelValue::true_()", "absent": "CelValue::false_()", "fail": "CelValue::from_err(r0.Err.0)"}
    if set(goth) == set(wanth) and all(goth[k][0] == v and goth[k][1] == ["b0"] and goth[k][2] == {"ctx"} for k, v in wanth.items()):
        chk.ok("R08.4", "has|decision table", sorted((k, v[0]) for k, v in goth.items()))
    else:
        chk.bad("R08.4", "has|decision table", "has(e) must be true whenever e evaluates (whatever the value, null included), false exactly for an unbound variable / absent field, and propagate every other failure; found %s" % sorted((str(k), v[0]) for k, v in goth.items()), hb.file)
    # R08.3
    comp = F.registries["rscel::context::default_macros::COMPILE_MACROS"]
    names = {r["name"] for r in comp["rows"]}
    for n in ("has", "coalesce"):
        if n in names:
            chk.bad("R08.3", n, "%s is in COMPILE_MACROS: would be folded with compile-time bindings" % n, comp["file"])
        else:
            chk.ok("R08.3", n)
    run_ = F.registries["rscel::context::default_macros::DEFAULT_MACROS"]
    tg = {r["name"]: r.get("target_path") for r in run_["rows"]}
    for n, want in (("has", "rscel::context::default_macros::has::has_impl"), ("coalesce", "rscel::context::default_macros::coalesce::coalesce_impl")):
        if tg.get(n) == want:
            chk.ok("R08.3", "wired|" + n)
        else:
            chk.bad("R08.3", "wired|" + n, "DEFAULT_MACROS[%s] = %s" % (n, tg.get(n)), run_["file"])
    # R08.5 where absence comes from: the failure classes produced by field access and by identifier resolution
    chk.rule("R08.5", "the failures that mean `absent` are produced exactly where data is missing: a field access that finds neither the field nor a callable of that name yields an "
                      "Attribute error (on a map without the key AND on a value that has no fields), an identifier that resolves to nothing yields a Binding error, and the "
                      "value or failure of a referenced stored program is passed on unchanged (its absent-class failures stay absent-class)")
    import re as _re
    import semtables, vmtable
    vm_ = vmtable.VM(F)
    rows_ = semtables.arm_paths(F, vm_, "Access") or []
    n_attr = 0
    for preds, ev in rows_:
        obj = None
        for k_, v_ in preds.items():
            if _re.match(r"^variant\(CelStackValue::into_value\(pop2\)\.Ok\.0\)$", k_):
                obj = v_
        pushes = [e[1] for e in ev if e[0] == "push"]
        if len(pushes) != 1 or obj is None:
            continue
        pv = str(pushes[0])
        has_field = any(_re.match(r"^variant\(HashMap::get\(", k_) and v_ == "Some" for k_, v_ in preds.items())
        if "BoundCall" in pv or has_field:
            continue
        plain = isinstance(obj, tuple) and obj[0] == "not"          # not a map, user object or message: a value without fields
        if obj == "Map" or plain:
            key_ = "Access|%s without the field" % ("map" if obj == "Map" else "value that has no fields")
            if "CelError::attribute(" in pv:
                n_attr += 1
                chk.ok("R08.5", key_, pv[:90])
            else:
                chk.bad("R08.5", key_, "field access on a %s pushes %s: a missing field must be an Attribute error (the class has() / coalesce() treat as absent), "
                                       "otherwise `has(a.i.c)` with a scalar `a.i` fails instead of answering false" % ("map without that key" if obj == "Map" else "value that has no fields", pv[:120]), vm_.b.file)
    chk.floor("R08.5", "absent-field rows of the Access arm (map miss, value without fields)", n_attr, 2)
    import C12 as _c12
    hit_rows, okp = _c12.pop_program_rows(F)
    if hit_rows and len(okp) == len(hit_rows):
        chk.ok("R08.5", "referenced program result passed on unchanged", hit_rows[0][:100])
    else:
        chk.bad("R08.5", "referenced program result passed on unchanged", "the failure of a referenced stored program is re-wrapped (%s): an absent field inside that program is no longer "
                                                                          "absent for has() / coalesce()" % [r_[:120] for r_ in hit_rows if r_ not in okp][:2], "rscel/src/interp/interp.rs")
    return chk.finish(
        "Error-class partition extracted from the MIR discriminant switches of has_impl / coalesce_impl; who-may-construct rule for the absent "
        "class over the whole call graph; registry wiring. Decides which failures count as absence; does not decide user Dyn classes.",
        ["rustc MIR", "frozen caller tables (read against interp.rs / cel_value.rs)"], ["default features"],
        technique="MIR discriminant-switch extraction + who-may-construct call-graph rule")
