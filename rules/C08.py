"""C08 has()/coalesce(): absent data vs every other failure - structural clauses."""
import lib, common

ABSENT = {"Binding", "Attribute"}
# who may construct an error of the absent class, confirmed by reading (one line of reason each)
BINDING_CALLERS = {
    "rscel::interp::interp::InterpStack::<'a, 'b>::pop": "identifier resolved to neither type, variable nor program",
    "rscel::interp::interp::Interpreter::<'a>::run_program": "named program not in the context",
}
ATTRIBUTE_CALLERS = {
    "rscel::interp::interp::Interpreter::<'a>::run_raw": "Access on a map without that field / method",
    "rscel::types::cel_value::CelValue::index::{closure#0}": "map[key] with absent key",
    "<rscel::types::cel_value::CelValue as rscel::types::cel_value_dyn::CelValueDyn>::access": "field access on a value without fields",
}
RAW_CONSTRUCTORS = {"rscel::types::cel_error::CelError::binding", "rscel::types::cel_error::CelError::attribute",
                    "rscel::types::cel_value::CelValue::binding_error", "rscel::types::cel_value::CelValue::attribute",
                    "<rscel::types::cel_error::CelError as std::clone::Clone>::clone"}


def error_partitions(F, b):
    """switches of b on the discriminant of a CelError place -> list of (set(variant names), same_target, otherwise!=target)"""
    ce = [a for a in F.adts.values() if a["path"] == "rscel::types::cel_error::CelError"][0]
    name = {v["discr"]: v["name"] for v in ce["variants"]}
    discr_locals = {}
    for i, s in b.stmts():
        rv = s.get("rv", {})
        if rv.get("k") == "discr" and rv.get("ty") == "rscel::types::cel_error::CelError" and "p" not in s["place"]:
            discr_locals[s["place"]["l"]] = i
    out = []
    for i, t in b.terms("switch"):
        l = lib.op_local(t["discr"])
        if l in discr_locals:
            cases = {name.get(c[0], c[0]) for c in t["cases"]}
            targets = {c[1] for c in t["cases"]}
            out.append((cases, len(targets) == 1, t["otherwise"] not in targets, i))
    return out


def run(chk, tier):
    F = lib.get_facts()
    cg = F.callgraph()
    chk.rule("R08.1", "has_impl / coalesce_impl partition CelError into exactly {Binding, Attribute} (absent) vs everything else (propagated)")
    chk.rule("R08.2", "only the frozen set of sites may construct a Binding / Attribute error (nothing else can be mistaken for absence)")
    chk.rule("R08.3", "has/coalesce are run-time macros only: not in the compile-time macro table (absence is not decidable at compile time)")
    for fn in ("has::has_impl", "coalesce::coalesce_impl"):
        b = F.body("rscel::context::default_macros::" + fn)
        parts = error_partitions(F, b)
        if len(parts) != 1:
            chk.bad("R08.1", fn, "%s must classify the error of its argument with one switch on the CelError variant; found %d (widened to all errors, or moved)" % (fn, len(parts)), b.file)
            continue
        cases, same, other_differs, blk = parts[0]
        if cases == ABSENT and same and other_differs:
            chk.ok("R08.1", fn, {"absent_class": sorted(cases), "switch_block": blk})
        else:
            chk.bad("R08.1", fn, "%s treats %s as absent (expected exactly %s, one shared arm, distinct propagate arm)" % (fn, sorted(cases), sorted(ABSENT)), b.file)
        # evaluation of the argument goes through run_raw (so nested paths / macro bodies behave the same)
        if any(c.endswith("Interpreter::<'a>::run_raw") for c in common.callees_of(b)):
            chk.ok("R08.1", fn + "|evaluates via run_raw")
        else:
            chk.bad("R08.1", fn + "|evaluates via run_raw", "argument no longer evaluated by run_raw", b.file)
    # R08.2
    for b in F.bodies.values():
        if b.pkg != "rscel":
            continue
        for i, s in b.stmts():
            rv = s.get("rv", {})
            if rv.get("k") == "agg" and rv.get("adt", "").endswith("cel_error::CelError") and rv["variant"] in ABSENT:
                if b.path in RAW_CONSTRUCTORS or "_serde::Deserialize" in b.path:
                    chk.ok("R08.2", "ctor|%s|%s" % (rv["variant"], b.path))
                else:
                    chk.bad("R08.2", "ctor|%s|%s" % (rv["variant"], b.path), "%s builds CelError::%s directly" % (b.path, rv["variant"]), b.file)
    for ctor, allowed in (("rscel::types::cel_error::CelError::binding", BINDING_CALLERS), ("rscel::types::cel_error::CelError::attribute", ATTRIBUTE_CALLERS),
                          ("rscel::types::cel_value::CelValue::binding_error", {}), ("rscel::types::cel_value::CelValue::attribute", {})):
        t = F.body(ctor)
        callers = sorted(F.bodies[x].path for x, ys in cg.edges.items() if t.id in ys and x in F.bodies)
        for c in callers:
            if c in allowed:
                chk.ok("R08.2", "caller|%s|%s" % (lib.short(ctor), c), allowed[c])
            else:
                chk.bad("R08.2", "caller|%s|%s" % (lib.short(ctor), c),
                        "%s now raises an absent-class error through %s: has()/coalesce() would swallow that failure" % (c, lib.short(ctor)), "")
    # R08.3
    comp = F.registries["rscel::context::default_macros::COMPILE_MACROS"]
    names = {r["name"] for r in comp["rows"]}
    for n in ("has", "coalesce"):
        if n in names:
            chk.bad("R08.3", n, "%s is in COMPILE_MACROS: would be folded with compile-time bindings" % n, comp["file"])
        else:
            chk.ok("R08.3", n)
    run_ = F.registries["rscel::context::default_macros::DEFAULT_MACROS"]
    tg = {r["name"]: r.get("target_path") for r in run_["rows"]}
    for n, want in (("has", "rscel::context::default_macros::has::has_impl"), ("coalesce", "rscel::context::default_macros::coalesce::coalesce_impl")):
        if tg.get(n) == want:
            chk.ok("R08.3", "wired|" + n)
        else:
            chk.bad("R08.3", "wired|" + n, "DEFAULT_MACROS[%s] = %s" % (n, tg.get(n)), run_["file"])
    return chk.finish(
        "Error-class partition extracted from the MIR discriminant switches of has_impl / coalesce_impl; who-may-construct rule for the absent "
        "class over the whole call graph; registry wiring. Decides which failures count as absence; does not decide user Dyn classes.",
        ["rustc MIR", "frozen caller tables (read against interp.rs / cel_value.rs)"], ["default features"],
        technique="MIR discriminant-switch extraction + who-may-construct call-graph rule")
