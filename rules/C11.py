"""C11 evaluation is a pure, deterministic function of program text and bindings - structural clauses."""
import re
import lib, common

HASH_ITER = re.compile(r"std::collections::hash_(map|set)::(Iter|IterMut|Keys|Values|ValuesMut|IntoIter|IntoKeys|IntoValues|Drain)<")
# bodies that iterate a hash container, with the reason the order cannot leak (or the structural condition checked)
HASH_SITES = {
    "<rscel::types::cel_value::CelValue as rscel::types::cel_value_dyn::CelValueDyn>::eq::{closure#0}": ("insensitive", "map equality: each entry is looked up in the other map; the result is a conjunction"),
    "rscel::context::default_macros::filter::filter_map": ("sorted", "keys are collected and sorted before the loop"),
    "rscel::context::default_macros::map::map_map": ("sorted", "keys are collected and sorted before the loop"),
    "rscel::program::program_details::ProgramDetails::filter_from_bindings": ("insensitive", "set -> set"),
    "rscel::program::program_details::ProgramDetails::params": ("insensitive", "set-valued result (documented as the set of parameter names)"),
    "rscel::program::program_details::ProgramDetails::union_from": ("insensitive", "set union"),
}
CLOCK_OK = {"rscel::context::default_funcs::now_impl": "now()",
            "rscel::context::type_funcs::timestamp_type::methods::timestamp_t": "zero-argument timestamp()"}
AMBIENT = re.compile(r"::now$|^std::env::|^rand|SystemTime::|Instant::|^std::fs::|^std::net::|thread_rng|RandomState::new|getrandom")
INTERIOR = re.compile(r"\b(RefCell|Cell|UnsafeCell|Mutex|RwLock|Atomic\w+|OnceCell|OnceLock|LazyLock|LazyCell)\b")
ROOTS = ["rscel::context::CelContext", "rscel::context::bind_context::BindContext", "rscel::program::Program"]


def pure_search_loop(b):
    """an unlisted body that iterates a hash container is order-insensitive when its loop(s) only SEARCH: no call in the loop takes a `&mut`
    argument except the iterator's own next(), no local written in the loop is read after the loop's normal completion, and every early exit
    assigns one and the same constant to the return place. Returns the constant's text, or None."""
    import mirq
    q = mirq.BodyQ(b)
    heads = [i for i, t, pth in q.call_sites(r"hash_(map|set)::(Iter|IterMut|Keys|Values|ValuesMut|IntoIter|IntoKeys|IntoValues|Drain)<.*> as std::iter::Iterator>::next$")]
    if not heads:
        return None
    consts = set()
    for h in heads:
        loop = set(x for x in q.reach(h) if h in q.reach(x))
        ve = q.variant_edges(h)
        if not ve or ve.get("None") is None:
            return None
        after = q.reach(ve["None"]) - loop
        written = set()
        for i, t in b.calls():
            if i not in loop:
                continue
            if i != h and any(str(ty).startswith("&mut") for ty in t.get("atys", [])):
                return None
            d = t.get("dest") or {}
            if "l" in d:
                written.add(d["l"])
        for i, st in b.stmts():
            if i in loop and st.get("k") == "assign":
                written.add(st["place"].get("l"))
        written.discard(0)
        for i, blk in enumerate(b.blocks):
            if i not in after or blk.get("cleanup"):
                continue
            for it in list(blk["stmts"]) + ([blk["term"]] if blk["term"] else []):
                if it.get("k") in ("storage_dead", "storage_live", "drop", "nop"):
                    continue
                for o in lib.iter_operands(it):
                    pl = o.get("copy") or o.get("move")
                    if pl and pl.get("l") in written:
                        return None
        exits = 0
        for x in loop:
            for y in b.succs(x):
                if y in loop or y == ve["None"]:
                    continue
                if b.blocks[y].get("cleanup") or (b.blocks[y]["term"] or {}).get("k") == "unreachable":
                    continue
                exits += 1
                region = q.reach(y) - loop
                vals = set()
                for i2, s2 in b.stmts():
                    if i2 in region and s2.get("k") == "assign" and s2["place"].get("l") == 0 and "p" not in s2["place"]:
                        rv = s2["rv"]
                        c = lib.op_const_int(rv.get("op", {})) if rv.get("k") == "use" else None
                        vals.add(("const", c) if c is not None else ("other", rv.get("k")))
                for i2, t2 in b.calls():
                    if i2 in region and (t2.get("dest") or {}).get("l") == 0:
                        vals.add(("other", "call"))
                # only the values assigned on the way from this exit count; the normal completion has its own
                region_norm = q.reach(ve["None"]) - loop
                early_only = set()
                for i2, s2 in b.stmts():
                    if i2 in region and i2 not in region_norm and s2.get("k") == "assign" and s2["place"].get("l") == 0 and "p" not in s2["place"]:
                        rv = s2["rv"]
                        c = lib.op_const_int(rv.get("op", {})) if rv.get("k") == "use" else None
                        early_only.add(("const", c) if c is not None else ("other", rv.get("k")))
                if not early_only or any(k != "const" for k, _ in early_only):
                    return None
                consts |= early_only
    if len(consts) == 1:
        return "returns %s" % list(consts)[0][1]
    return None


def run(chk, tier):
    F = lib.get_facts()
    chk.rule("R11.1", "no mutable static / thread-local is read or written by any rscel body")
    chk.rule("R11.2", "no interior mutability in any type reachable from CelContext / BindContext / Program (exec takes them by shared reference)")
    chk.rule("R11.3", "ambient inputs (clock, env, randomness, fs) are read only by now() and zero-argument timestamp()")
    chk.rule("R11.4", "iteration over a hash container never fixes the order of a result: each site is order-insensitive or sorts first")
    chk.rule("R11.5", "exec / run_program borrow context and bindings immutably (&self, &BindContext)")
    n = 0
    for b in F.bodies.values():
        if b.pkg != "rscel":
            continue
        n += 1
        for i, s in list(b.stmts()) + [(i, t) for i, t in b.terms()]:
            if s.get("rv", {}).get("k") == "tls":
                chk.bad("R11.1", b.path + "|tls", "thread-local state used in %s" % b.path, b.file)
            for op in lib.iter_operands(s):
                c = op.get("const")
                if c and c.get("static_mut"):
                    chk.bad("R11.1", b.path + "|static mut", "mutable static %s used in %s" % (c.get("static"), b.path), b.file)
        for c in common.callees_of(b):
            if AMBIENT.search(c):
                if b.path in CLOCK_OK:
                    chk.ok("R11.3", "%s|%s" % (b.path, lib.short(c)), CLOCK_OK[b.path])
                else:
                    chk.bad("R11.3", "%s|%s" % (b.path, lib.short(c)), "%s reads an ambient input (%s): evaluation is no longer a function of program and bindings" % (b.path, c), b.file)
        hs = [c for c in common.callees_g(b) if HASH_ITER.search(c)]
        if hs:
            row = HASH_SITES.get(b.path)
            key = "%s|hash iteration" % b.path
            # consumers that are commutative folds of the elements (any / all / count / sum / min / max / for_each into a set):
            # the iteration order cannot reach the result
            consumers = [c for c in hs]
            commut = re.compile(r"::Iterator>::(any|all|count|sum|product|max|min|len)<|::Iterator::(any|all|count|sum|product|max|min)<|^std::iter::Iterator::(any|all|count|sum|product|max|min)<")
            producer = re.compile(r"HashMap::<K, V, S>::(values|keys|iter)<|HashSet::<T, S>::iter<|::len<")
            if row is None and all(commut.search(c) or producer.search(c) for c in consumers) and any(commut.search(c) for c in consumers):
                chk.ok("R11.4", key, "commutative fold (any / all / count ..) over the elements")
            elif row is None and pure_search_loop(b):
                chk.ok("R11.4", key, "search loop: nothing is accumulated, every early exit returns one and the same constant (%s)" % pure_search_loop(b))
            elif row is None:
                chk.bad("R11.4", key, "%s iterates a HashMap/HashSet (%s): hash order differs between runs and clones and may reach the result" % (b.path, lib.short(hs[0])[:80]), b.file)
            elif row[0] == "sorted":
                if any(re.search(r"slice::<impl \[T\]>::(sort|sort_unstable|sort_by|sort_by_key)$", c) for c in common.callees_of(b)):
                    chk.ok("R11.4", key, row[1])
                else:
                    chk.bad("R11.4", key, "%s iterates map keys in hash order without sorting them first: `m.map(k,k) == m.map(k,k)` can be false" % b.path, b.file)
            else:
                # "insensitive" is re-verified: every early exit out of the hash-ordered loop must yield one and the same constant
                # (otherwise WHICH entry is met first decides the result, and hash order differs between runs and clones)
                import mirq
                q = mirq.BodyQ(b)
                heads = [i for i, t, pth in q.call_sites(r"hash_(map|set)::(Iter|IterMut|Keys|Values|ValuesMut|IntoIter|IntoKeys|IntoValues|Drain)<.*> as std::iter::Iterator>::next$")]
                sigs = set()
                for h in heads:
                    loop = set(x for x in q.reach(h) if h in q.reach(x))
                    ve = q.variant_edges(h)
                    normal_exit = ve["None"] if ve else None
                    for x in loop:
                        for y in b.succs(x):
                            if y in loop or y == normal_exit:
                                continue
                            # value returned on this early exit
                            region = q.reach(y)
                            for i2, t2 in b.calls():
                                if i2 in region and "p" not in t2["dest"] and t2["dest"]["l"] == 0:
                                    sigs.add(lib.short(lib.callee_of(t2)[1]) + ("(..)" if t2["args"] else "()"))
                            for i2, s2 in b.stmts():
                                if i2 in region and s2.get("k") == "assign" and s2["place"]["l"] == 0 and "p" not in s2["place"]:
                                    rv = s2["rv"]
                                    sigs.add("assign:" + (rv.get("variant") or rv["k"]))
                # the normal completion value is not an early exit; drop signatures that are only reachable from the normal exit
                early = set(x for x in sigs)
                norm = set()
                for h in heads:
                    ve = q.variant_edges(h)
                    if ve:
                        for i2, t2 in b.calls():
                            if i2 in q.reach(ve["None"]) and "p" not in t2["dest"] and t2["dest"]["l"] == 0:
                                norm.add(lib.short(lib.callee_of(t2)[1]) + ("(..)" if t2["args"] else "()"))
                distinct_early = set(x for x in early if not (x in norm and len(early) > 1 and False))
                nonconst = [x for x in distinct_early if x.endswith("(..)")]
                if len(distinct_early - norm) <= 1 and not [x for x in (distinct_early - norm) if x.endswith("(..)")]:
                    chk.ok("R11.4", key, row[1] + (" [early exits: %s]" % sorted(distinct_early - norm) if heads else ""))
                else:
                    chk.bad("R11.4", key, "%s leaves its hash-ordered loop early with different results %s: which entry is visited first (hash order, differs between runs, clones and threads) decides the outcome" % (b.path, sorted(distinct_early - norm)), b.file)
    chk.analysed["bodies"] = n
    chk.ok("R11.1", "scanned %d bodies" % n)
    # R11.2 type closure
    by_path = {a["path"]: a for a in F.adts.values() if a["pkg"] == "rscel"}
    seen, st = set(), list(ROOTS)
    while st:
        p = st.pop()
        if p in seen or p not in by_path:
            continue
        if p == "rscel::interp::interp::Interpreter":
            # only named as a parameter of the macro callback signature (dyn Fn(&Interpreter, ..)); never stored
            continue
        seen.add(p)
        for v in by_path[p]["variants"]:
            for f in v["fields"]:
                key = "%s::%s.%s" % (p, v["name"], f["name"])
                if INTERIOR.search(f["ty"]):
                    chk.bad("R11.2", key, "field %s : %s has interior mutability; exec(&self) could change stored state" % (key, f["ty"]), by_path[p]["file"])
                else:
                    chk.ok("R11.2", key)
                for q in by_path:
                    if re.search(r"(?<![\w:])" + re.escape(q) + r"(?![\w])", f["ty"]):
                        st.append(q)
    chk.floor("R11.2", "ADTs reachable from the roots", len(seen), 8)
    chk.analysed["state_types"] = sorted(seen)
    # R11.5
    ex = F.body("rscel::context::CelContext::exec")
    # exec is declared `&mut self` but must use it only through shared reborrows: no write through, no `&mut` of, *self
    muts = []
    for i, st_ in ex.stmts():
        pl = st_.get("place", {})
        if pl.get("l") == 1 and "p" in pl:
            muts.append("write through self")
        rv = st_.get("rv", {})
        if rv.get("k") == "ref" and rv.get("mut") and rv["place"].get("l") == 1:
            muts.append("&mut reborrow of self")
    for i, t in ex.calls():
        for a, ty in zip(t["args"], t["atys"]):
            if lib.op_local(a) == 1 and ty.startswith("&mut"):
                muts.append("self passed on as &mut")
    if muts:
        chk.bad("R11.5", "exec|self used immutably", "CelContext::exec mutates or hands out &mut self: %s" % muts, ex.file)
    else:
        chk.ok("R11.5", "exec|self used immutably", "declared &mut self, used only through shared reborrows")
    for path in ("rscel::interp::interp::Interpreter::<'a>::run_program", "rscel::interp::interp::Interpreter::<'a>::run_raw"):
        b = F.body(path)
        args = [b.local_ty(i) for i in range(1, b.d["arg_count"] + 1)]
        if any(a.startswith("&") and " mut " in a.split("<")[0] + " " for a in args) or any(re.match(r"^&('\w+ )?mut ", a) for a in args):
            chk.bad("R11.5", path, "takes a mutable borrow: %s" % args, b.file)
        else:
            chk.ok("R11.5", path, args)
    # ---- R11.6 stored state is updated consistently: no field of a root lags behind another
    chk.rule("R11.6", "in every mutator (&mut self method) of CelContext / BindContext, a field that is updated at all is updated on every path on which another field of the same "
                      "object is updated: no derived table can keep a stale entry after a name is replaced")
    import mirq
    n_mut = 0
    for root in ("rscel::context::CelContext", "rscel::context::bind_context::BindContext"):
        adt = F.adts.get(root) or F.adts.get(root.replace("::<'a>", ""))
        cands = [a for k_, a in F.adts.items() if k_.split("<")[0] == root]
        adt = adt or (cands[0] if cands else None)
        if adt is None:
            chk.bad("R11.6", "anchor|" + root, "type %s not found" % root, "")
            continue
        fnames = [f["name"] for f in adt["variants"][0]["fields"]]
        short_root = root.split("::")[-1]
        for b in F.bodies.values():
            if b.pkg != "rscel" or not re.search(r"::%s(::<[^>]*>)?::\w+$" % short_root, b.path):
                continue
            if b.d.get("arg_count", 0) < 1 or not re.match(r"^&('\w+ )?mut [\w:]*%s\b" % short_root, b.local_ty(1) or ""):
                continue
            q = mirq.BodyQ(b)
            writes = {}
            for blk, t in b.calls():
                for a, ty in zip(t.get("args", []), t.get("atys", [])):
                    if not ty.startswith("&mut"):
                        continue
                    o = q.origin(a)
                    # &mut (*self).field  handed to a callee = an update of that field
                    pl = None
                    if o and o[0] == "param" and o[1] == 1 and len(o) > 2:
                        pl = o[2]
                    if pl:
                        fi = [x.get("f") for x in pl if isinstance(x, dict) and "f" in x]
                        if fi:
                            writes.setdefault(fi[0], set()).add(blk)
            for i, st_ in b.stmts():
                pl = st_.get("place", {})
                if st_.get("k") == "assign" and pl.get("l") == 1 and pl.get("p") and pl["p"][0] == "deref":
                    fi = [x.get("f") for x in pl["p"] if isinstance(x, dict) and "f" in x]
                    if fi:
                        writes.setdefault(fi[0], set()).add(i)
            if not writes:
                continue
            n_mut += 1
            rets = [i for i, t in b.terms("return")]

            def always(blocks):
                seen = q.reach(0, blocked=blocks)
                return not any(r in seen for r in rets)
            total = {f: always(bl) for f, bl in writes.items()}
            key = lib.short(b.path)
            if len(writes) >= 2 and any(total.values()) and not all(total.values()):
                lag = sorted(fnames[f] if f < len(fnames) else str(f) for f, v in total.items() if not v)
                lead = sorted(fnames[f] if f < len(fnames) else str(f) for f, v in total.items() if v)
                chk.bad("R11.6", key, "%s always updates %s but updates %s only on some paths: after a name is replaced the other table can keep the old entry, "
                                      "so a later result depends on what was stored before" % (key, lead, lag), b.file)
            else:
                chk.ok("R11.6", key, {"fields updated": sorted(fnames[f] if f < len(fnames) else str(f) for f in writes)})
    chk.floor("R11.6", "mutators of the stored state", n_mut, 4)
    return chk.finish(
        "Effect rules over all rscel bodies (statics, thread-locals, ambient-input callees, hash-container iteration) and an interior-mutability walk "
        "over the types reachable from CelContext / BindContext / Program. Decides: no hidden state, enumerated ambient inputs, no hash order in "
        "results, shared borrows. Concurrency is inferred from the absence of shared mutable state, not exercised.",
        ["rustc MIR and ADT facts", "borrow checker (no mutation through & without interior mutability)"],
        ["user-bound functions are outside the analysed program", "Interpreter's own depth counter (RefCell) lives in the throw-away Interpreter, not in the roots"],
        technique="effect / who-may-call rules + type-closure walk")
