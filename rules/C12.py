"""C12 name resolution order, replace-on-rebind, depth bound - structural clauses.

Decides (necessary conditions of the behaviour):
  R12.1 identifier look-up order in InterpStack::pop: type -> variable -> stored program -> Binding error, each later
        look-up reachable only through the miss edge of the earlier one; the stored program runs on the same interpreter
  R12.2 call position: bound function -> macro -> type constructor -> "not callable"; callable_by_name: function -> macro;
        Access on a map: field look-up first, method only on its miss edge
  R12.3 bind_param / bind_func / bind_macro / add_program / add_type are one unconditional HashMap::insert (replace)
  R12.4 the depth guard: limit constant >= 16 compared in run_raw before the dispatch loop, the guard value is never
        moved / forgotten (released on every exit), new_child inherits the parent's count
  R12.5 JSON binding: From<Value> and From<&Value> try i64, then u64, then f64, and agree on the constructor per JSON kind
Not decided: equality of JSON-bound and directly bound values beyond the constructor table."""
import re
import lib, mirq, common

POP = "rscel::interp::interp::InterpStack::<'a, 'b>::pop"
RUN_RAW = "rscel::interp::interp::Interpreter::<'a>::run_raw"
CALLABLE = "rscel::interp::interp::Interpreter::<'a>::callable_by_name"
BYTECODE = "rscel::interp::types::bytecode::ByteCode"


def only_via_miss(chk, rule, q, a_sites, b_sites, start, blocked, what, miss="None"):
    """every site in b_sites must be unreachable from `start` once the miss edges of all a_sites are cut"""
    if not a_sites or not b_sites:
        chk.bad(rule, what + "|sites", "%s: look-up call not found (a=%d, b=%d) in %s" % (what, len(a_sites), len(b_sites), q.b.path), q.b.file)
        return
    cuts = set()
    for (i, t, p) in a_sites:
        ve = q.variant_edges(i)
        if ve is None:
            chk.bad(rule, what + "|shape", "%s: result of %s is not tested by a discriminant switch (block %d)" % (what, lib.short(p), i), q.b.file)
            return
        cuts.add((ve["_switch"], ve[miss]))
        hit = "Some" if miss == "None" else "Ok"
        # after a hit the later look-up must not run
        after_hit = q.reach(ve[hit], blocked=blocked)
        for (j, tj, pj) in b_sites:
            if j in after_hit and ve[hit] != ve[miss]:
                chk.bad(rule, what + "|after-hit", "%s: %s still runs after %s already found the name (line %s)" % (what, lib.short(pj), lib.short(p), tj.get("line")), q.b.file)
                return
    r = q.reach(start, cut_edges=cuts, blocked=blocked)
    for (j, tj, pj) in b_sites:
        if j in r:
            chk.bad(rule, what, "%s: %s (line %s) is reachable without the earlier look-up having missed - order changed" % (what, lib.short(pj), tj.get("line")), q.b.file)
            return
    chk.ok(rule, what, {"earlier": [lib.short(p) for _, _, p in a_sites], "later": [lib.short(p) for _, _, p in b_sites]})


def pop_program_rows(F):
    """decision rows of InterpStack::pop on which the identifier names a stored program: (all rows, rows of an accepted pass-through shape).
    The value or failure of the referenced program must be what the identifier evaluates to - unchanged."""
    import symex as _sx, semtables as _st
    b = F.body(POP)

    class PopPolicy(_st.LogicPolicy):
        max_paths = 800

        def stub(self, interp, st, path, c, args, t, caller):
            for nm in ("run_raw", "get_type_by_name", "get_param_by_name", "get_program"):
                if path.endswith("::" + nm):
                    return [(st, ("call", nm, tuple(args[1:]), "R"))]
            return None
    it_ = _sx.Interp(F, PopPolicy())
    hit_rows = []
    for st_, r_ in it_.run(b, [_sx.U("self", b.local_ty(1))]):
        if any(c[0] == "variant" and c[2] == "Some" and str(c[3]).startswith("get_program(") for c in st_.cond):
            hit_rows.append(_sx.render(_sx.deep(st_, r_)))
    RUNP = r"run_raw\(Program::bytecode\(get_program\([^()]*\)\.Some\.0\), 1\)"
    okp = [r_ for r_ in hit_rows if re.match(r"^Result::map\(%s, closure#\d+\)$" % RUNP, r_) or re.match(r"^Result::Ok\((?:\w+::)*\w+\(%s\.Ok\.0\)\)$" % RUNP, r_)
           or re.match(r"^Result::Err\(%s\.Err\.0\)$" % RUNP, r_) or re.match(r"^%s$" % RUNP, r_) or re.match(r"^Result::Err\{\?%s\}$" % RUNP, r_)
           # a guard of the interpreter that refuses to evaluate the program at all (cycle detection): it is asked with the NAME, before run_raw,
           # and its failure is returned as it is (it cannot be of the absent class: C08 R08.2 freezes who may construct that)
           or (re.match(r"^Result::Err\(Interpreter::\w+\(self\.\d+, .*\)\.Err\.0\)$", r_) and "run_raw(" not in r_)]
    return hit_rows, okp


def run(chk, tier):
    F = lib.get_facts()
    chk.rule("R12.1", "InterpStack::pop resolves an identifier as type, then variable, then stored program (same interpreter, resolve=true), else Binding error; each later step only on the miss edge of the earlier")
    chk.rule("R12.2", "Call: function, then macro, then type constructor; callable_by_name: function then macro; map Access: field before method")
    chk.rule("R12.3", "binding / adding is a single unconditional HashMap::insert (a later binding replaces the earlier)")
    chk.rule("R12.4", "depth guard: constant limit >= 16 tested before the dispatch loop; guard released on every exit; child interpreters inherit the count")
    chk.rule("R12.5", "JSON numbers are tried as i64, u64, f64 in that order in both From<Value> impls, which agree per JSON kind")

    # ---------------- R12.1
    b = F.body(POP)
    q = mirq.BodyQ(b)
    ty = q.call_sites(r"Interpreter::<'a>::get_type_by_name$")
    pa = q.call_sites(r"Interpreter::<'a>::get_param_by_name$")
    pr = q.call_sites(r"CelContext::get_program$")
    be = q.call_sites(r"CelError::binding$")
    # ... or a private helper of the interpreter that builds that failure
    for hb_ in F.bodies.values():
        if hb_.pkg == "rscel" and hb_.path.startswith("rscel::interp::") and hb_.id != b.id and str(hb_.d.get("vis", "")).startswith("Restricted") \
                and mirq.BodyQ(hb_).call_sites(r"CelError::binding$"):
            be += [(i_, t_, p_) for i_, t_ in b.calls() for p_ in [lib.callee_of(t_)[1]] if lib.callee_of(t_)[0] == hb_.id]
    rr = q.call_sites(r"Interpreter::<'a>::run_raw$")
    only_via_miss(chk, "R12.1", q, ty, pa, 0, (), "pop|type before variable")
    only_via_miss(chk, "R12.1", q, pa, pr, 0, (), "pop|variable before program")
    only_via_miss(chk, "R12.1", q, pa, be, 0, (), "pop|unbound only after variable missed")
    only_via_miss(chk, "R12.1", q, pr, be, 0, (), "pop|unbound only after program missed") if False else None
    # program hit must not fall through to the Binding error; the program runs on the same interpreter with resolve=true
    if pr and be:
        ve = q.variant_edges(pr[0][0])
        if ve is None:
            chk.bad("R12.1", "pop|program shape", "get_program result not switched on", b.file)
        else:
            after = q.reach(ve["Some"])
            if any(j in after for j, _, _ in be):
                chk.bad("R12.1", "pop|program hit", "a found program still reaches the Binding error", b.file)
            elif not any(j in after for j, _, _ in rr):
                chk.bad("R12.1", "pop|program hit", "a found program is not evaluated by run_raw", b.file)
            else:
                hr_, _ok = pop_program_rows(F)
                lazy = [r_ for r_ in hr_ if "run_raw(" not in r_ and not re.match(r"^Result::Err\(Interpreter::\w+\(self\.\d+, .*\)\.Err\.0\)$", r_)]
                if lazy or not hr_:
                    chk.bad("R12.1", "pop|program hit always runs", "a found program can be answered without evaluating it (%s): "
                                                                     "its value then is not what the program computes under the current bindings" % [r_[:100] for r_ in lazy][:2], b.file)
                else:
                    chk.ok("R12.1", "pop|program hit always runs")
                chk.ok("R12.1", "pop|program hit runs and returns")
            miss = q.reach(ve["None"])
            if not any(j in miss for j, _, _ in be):
                chk.bad("R12.1", "pop|all-miss", "missing program does not end in the Binding error", b.file)
            else:
                chk.ok("R12.1", "pop|all-miss is Binding")
    hit_rows, okp = pop_program_rows(F)
    if hit_rows and len(okp) == len(hit_rows):
        chk.ok("R12.1", "pop|program result passed on unchanged", hit_rows[0][:100])
    else:
        chk.bad("R12.1", "pop|program result passed on unchanged", "an identifier that names a stored program must evaluate to exactly what that program yields - value or failure, unchanged "
                                                                    "(a re-wrapped failure changes its class: an absent field inside the referenced program stops being absent for has / coalesce); found %s"
                % [r_[:140] for r_ in hit_rows if r_ not in okp][:2], b.file)
    for (i, t, p) in rr:
        o = q.origin(t["args"][0])
        # the receiver is the interpreter this stack belongs to: the field of InterpStack that refers to an Interpreter (by type, not by position or name)
        isa = [a_ for a_ in F.adts.values() if a_["path"] == "rscel::interp::interp::InterpStack"]
        ctx_idx = [k_ for k_, f_ in enumerate(isa[0]["variants"][0]["fields"]) if "Interpreter<" in f_["ty"]] if isa else []
        same = o[0] == "param" and o[1] == 1 and len(ctx_idx) == 1 and {"f": ctx_idx[0]} in o[2]
        flag = lib.op_const_int(t["args"][2]) if len(t["args"]) > 2 else None
        if same and flag == 1:
            chk.ok("R12.1", "pop|program runs on self.ctx, resolve=true", {"receiver": str(o)})
        else:
            chk.bad("R12.1", "pop|program runs on self.ctx, resolve=true", "run_raw receiver origin %s resolve=%s: a referenced program must run on the same interpreter (same bindings, same depth counter)" % (o, flag), b.file)
    chk.floor("R12.1", "run_raw calls in pop", len(rr), 1)

    # ---------------- R12.6 cycle guard
    chk.rule("R12.6", "a stored program is never evaluated while it is already being evaluated: identifier resolution and run_program ask a guard with the program's name before "
                      "run_raw; the guard fails when the name is on the list of programs being evaluated and otherwise lists it until the evaluation returns; child interpreters "
                      "(macro bodies) inherit the list - a cyclic reference is an error at once instead of after (references per program)^(depth limit) steps")
    hr6, _ok6 = pop_program_rows(F)
    guards6 = set()
    for r_ in hr6:
        m6 = re.match(r"^Result::Err\(Interpreter::(\w+)\(self\.\d+, .*\)\.Err\.0\)$", r_)
        if m6 and "run_raw(" not in r_:
            guards6.add(m6.group(1))
    if len(guards6) != 1:
        chk.bad("R12.6", "pop|guard before evaluation", "an identifier that names a stored program is evaluated without asking whether that program is already being evaluated: "
                                                         "`a := has(a) || has(a) || has(a)` is evaluated 3^32 times before the depth limit ends it (it practically never returns)", b.file if False else "rscel/src/interp/interp.rs")
    else:
        g6 = sorted(guards6)[0]
        chk.ok("R12.6", "pop|guard before evaluation", g6)
        gb6 = F.body("rscel::interp::interp::Interpreter::<'a>::" + g6)
        import symex as _sx6, semtables as _st6
        it6 = _sx6.Interp(F, _st6.LogicPolicy())
        rows6 = []
        for st_, r_ in it6.run(gb6, [_sx6.U("self", gb6.local_ty(1)), _sx6.U("name", gb6.local_ty(2))]):
            preds6 = [(c[0], str(c[1])) for c in st_.cond if c[0] in ("eq", "ne")]
            rows6.append((preds6, _sx6.render(_sx6.deep(st_, r_))))
        member_true_err = any(any(k_ == "ne" and re.search(r"Iterator::any\(|contains\(", e_) for k_, e_ in pr_) and rr_.startswith("Result::Err(") for pr_, rr_ in rows6)
        member_false_ok = any(any(k_ == "eq" and re.search(r"Iterator::any\(|contains\(", e_) for k_, e_ in pr_) and rr_.startswith("Result::Ok(") for pr_, rr_ in rows6)
        qg6 = mirq.BodyQ(gb6)
        pushes6 = [1 for i_, t_, p_ in qg6.call_sites(r"Vec::<T, A>::push$|Vec::<T>::push$") if "p2" in mirq.expr_of(qg6, t_["args"][1])]
        if member_true_err and member_false_ok and len(rows6) == 2 and pushes6:
            chk.ok("R12.6", "%s|listed -> error, else list the name" % g6)
        else:
            chk.bad("R12.6", "%s|listed -> error, else list the name" % g6, "the guard must fail exactly when the name is already listed and list it otherwise: rows %s, pushes of the name: %d" % ([(p_, r_[:50]) for p_, r_ in rows6], len(pushes6)), gb6.file)
        # the listing ends when the evaluation returns: the guard's result type pops in its Drop
        drops6 = [b_ for b_ in F.bodies.values() if b_.pkg == "rscel" and re.search(r"interp::interp::\w+(<'\w+>)? as std::ops::Drop>::drop$", b_.path)]
        if any(any(re.search(r"Vec::<T, A>::pop$|Vec::<T>::pop$", c_) for c_ in common.callees_of(b_)) for b_ in drops6):
            chk.ok("R12.6", "listing ends with the evaluation (Drop pops)")
        else:
            chk.bad("R12.6", "listing ends with the evaluation (Drop pops)", "no Drop impl of the interpreter module removes the name again: a second, non-cyclic reference to the same program would be refused", gb6.file)
        rp6 = F.body("rscel::interp::interp::Interpreter::<'a>::run_program")
        q6 = mirq.BodyQ(rp6)
        gs = q6.call_sites(r"Interpreter::<'a>::%s$" % g6)
        rs = q6.call_sites(r"Interpreter::<'a>::run_raw$")
        if gs and rs and all(any(rp6.dominates(g_[0], r_[0]) for g_ in gs) for r_ in rs):
            chk.ok("R12.6", "run_program|guard before evaluation")
        else:
            chk.bad("R12.6", "run_program|guard before evaluation", "run_program evaluates the entry program without listing it: the first self-reference is not recognised", rp6.file)
        nc6 = F.body("rscel::interp::interp::Interpreter::<'a>::new_child")
        qn6 = mirq.BodyQ(nc6)
        ia = [a_ for a_ in F.adts.values() if a_["path"] == "rscel::interp::interp::Interpreter"][0]
        fn6 = [f_["name"] for f_ in ia["variants"][0]["fields"]]
        inherited = False
        for i_, adt_, var_, s_ in qn6.aggregates(adt_suffix="interp::Interpreter"):
            ops_ = [mirq.expr_of(qn6, o_) for o_ in s_["rv"]["ops"]]
            for k_, e_ in enumerate(ops_):
                if k_ < len(fn6) and re.search(r"\bp1\.%d\b" % k_, e_) and "RefCell" in e_ and ("Vec" in (ia["variants"][0]["fields"][k_]["ty"])):
                    inherited = True
        if inherited:
            chk.ok("R12.6", "new_child|inherits the list")
        else:
            chk.bad("R12.6", "new_child|inherits the list", "a child interpreter (macro body) starts with an empty list: a cycle that passes through a macro body, has() or coalesce() is not recognised", nc6.file)
    # ---------------- R12.2
    b = F.body(RUN_RAW)
    q = mirq.BodyQ(b)
    sws = [s for s in q.switches_on(F, BYTECODE) if len(s[2]) >= 20]
    if len(sws) != 1:
        raise lib.MissingAnchor("run_raw dispatch switch on ByteCode (found %d)" % len(sws))
    sblk, _place, arms, _other = sws[0]
    dom = set(b.dominators()[sblk])
    call_region = q.arm_region(sblk, arms["Call"])
    fn = [s for s in q.call_sites(r"Interpreter::<'a>::get_func_by_name$") if s[0] in call_region]
    mc = [s for s in q.call_sites(r"Interpreter::<'a>::get_macro_by_name$") if s[0] in call_region]
    tp = [s for s in q.call_sites(r"Interpreter::<'a>::get_type_by_name$") if s[0] in call_region]
    only_via_miss(chk, "R12.2", q, fn, mc, arms["Call"], dom, "Call|function before macro")
    only_via_miss(chk, "R12.2", q, mc, tp, arms["Call"], dom, "Call|macro before type constructor")
    # the "not callable" error only after the type look-up missed
    if tp:
        ve = q.variant_edges(tp[0][0])
        if ve:
            miss = q.reach(ve["None"], blocked=dom)
            ct = [s for s in q.call_sites(r"type_funcs::construct_type$") if s[0] in miss]
            if ct:
                chk.bad("R12.2", "Call|type miss", "construct_type reachable after the type look-up missed", b.file)
            else:
                chk.ok("R12.2", "Call|type miss is 'not callable'")
    acc_region = q.arm_region(sblk, arms["Access"])
    mg = [s for s in q.call_sites(r"HashMap::<K, V, S>::get$") if s[0] in acc_region]
    cb = [s for s in q.call_sites(r"callable_by_name$") if s[0] in acc_region]
    if mg:
        # the method look-ups that can follow the map look-up at all
        after = q.reach(mg[0][0], blocked=dom)
        cb_map = [s for s in cb if s[0] in after]
        only_via_miss(chk, "R12.2", q, mg, cb_map, arms["Access"], dom, "Access|map field before method")
    else:
        chk.bad("R12.2", "Access|map field before method", "no HashMap::get in the Access arm", b.file)
    b2 = F.body(CALLABLE)
    q2 = mirq.BodyQ(b2)
    only_via_miss(chk, "R12.2", q2, q2.call_sites(r"get_func_by_name$"), q2.call_sites(r"get_macro_by_name$"), 0, (), "callable_by_name|function before macro")

    # ---------------- R12.3
    for path in ("rscel::context::bind_context::BindContext::<'a>::bind_param", "rscel::context::bind_context::BindContext::<'a>::bind_func",
                 "rscel::context::bind_context::BindContext::<'a>::bind_macro", "rscel::context::bind_context::BindContext::<'a>::add_type",
                 "rscel::context::CelContext::add_program"):
        bb = F.body(path)
        qq = mirq.BodyQ(bb)
        ins = qq.call_sites(r"HashMap::<K, V, S>::insert$")
        other = qq.call_sites(r"HashMap::<K, V, S>::(entry|contains_key|get|get_mut|remove|try_insert)$")
        switches = [i for i, t in bb.terms("switch")]
        # the only branch allowed is the drop-flag-free straight line; Option<old value> is dropped, not inspected
        if len(ins) == 1 and not other and not switches:
            chk.ok("R12.3", lib.short(path), "one unconditional insert")
        else:
            chk.bad("R12.3", lib.short(path), "%s: expected one unconditional HashMap::insert (found insert=%d, other map calls=%d, branches=%d): a later binding must replace the earlier one" % (path, len(ins), len(other), len(switches)), bb.file)
    bj = F.body("rscel::context::bind_context::BindContext::<'a>::bind_params_from_json_obj")
    qj = mirq.BodyQ(bj)
    ins_j = [e for e in mirq.call_exprs(qj, drop=None) if e.startswith("HashMap::insert(")]
    # one insert per entry of the JSON object: key = the entry's key, value = the entry's value (through the CelValue conversion, which is transparent here)
    if len(ins_j) == 1 and re.match(r"^HashMap::insert\(p1\.\d+, (.+)\.Some\.0\.0, \1\.Some\.0\.1\)$", ins_j[0]) and "p2" in ins_j[0] \
            and not qj.call_sites(r"HashMap::<K, V, S>::(entry|contains_key|try_insert)$"):
        chk.ok("R12.3", "bind_params_from_json_obj", "insert(CelValue::from(value)) per key")
    else:
        chk.bad("R12.3", "bind_params_from_json_obj", "JSON binding must insert CelValue::from(value) for every key, replacing earlier bindings", bj.file)

    # ---------------- R12.4
    b = F.body(RUN_RAW)
    q = mirq.BodyQ(b)
    inc = q.call_sites(r"ScopedCounter::inc$")
    if len(inc) != 1:
        chk.bad("R12.4", "run_raw|inc once", "run_raw must take exactly one depth unit per invocation (found %d ScopedCounter::inc calls)" % len(inc), b.file)
    else:
        iblk, it, _ = inc[0]
        guard_local = it["dest"]["l"]
        if not b.dominates(iblk, sblk):
            chk.bad("R12.4", "run_raw|inc before dispatch", "ScopedCounter::inc does not dominate the dispatch loop", b.file)
        else:
            chk.ok("R12.4", "run_raw|inc dominates dispatch")
        if guard_local in q.moved_locals():
            chk.bad("R12.4", "run_raw|guard released", "the depth guard is moved out of run_raw's frame (stored / forgotten): depth would not be released on exit", b.file)
        else:
            drops = [i for i, t in b.terms("drop") if t["place"]["l"] == guard_local and "p" not in t["place"]]
            if drops:
                chk.ok("R12.4", "run_raw|guard released", {"drop_blocks": len(drops)})
            else:
                chk.bad("R12.4", "run_raw|guard released", "no drop of the depth guard in run_raw", b.file)
        # limit: `count() > N` with N >= 16, tested before the loop, error edge returns
        cmps = [c for c in q.const_compares() if c[3] == "usize" and c[1] in ("Gt", "Ge") and b.dominates(iblk, c[0]) and b.dominates(c[0], sblk)]
        lim = [c for c in cmps if isinstance(q.origin(c[4]), tuple) and q.origin(c[4])[0] == "call" and q.origin(c[4])[1].endswith("ScopedCounterRef::<'a>::count")]
        if len(lim) != 1:
            chk.bad("R12.4", "run_raw|limit", "expected one comparison of the depth count with a constant before the dispatch loop, found %d" % len(lim), b.file)
        else:
            n = lim[0][2] + (0 if lim[0][1] == "Gt" else -1)
            if 16 <= n <= 4096:
                chk.ok("R12.4", "run_raw|limit", {"max_depth": n})
            else:
                chk.bad("R12.4", "run_raw|limit", "depth limit %d: chains of 16 references must evaluate and the bound must stay far below stack exhaustion" % n, b.file)
    nc = F.body("rscel::interp::interp::Interpreter::<'a>::new_child")
    qn = mirq.BodyQ(nc)
    st = qn.call_sites(r"ScopedCounter::starting_at$")
    fresh = qn.call_sites(r"ScopedCounter::new$")
    okc = False
    if len(st) == 1 and not fresh:
        o = qn.origin(st[0][1]["args"][0])
        okc = o[0] == "call" and o[1].endswith("ScopedCounter::count") and qn.root_param(o[2]["args"][0]) == 1
    if okc:
        chk.ok("R12.4", "new_child inherits parent depth")
    else:
        chk.bad("R12.4", "new_child inherits parent depth", "Interpreter::new_child must start at parent.depth.count(): macro bodies would otherwise reset the depth budget", nc.file)
    sa = F.body("rscel::utils::scoped_counter::ScopedCounter::starting_at")
    qs = mirq.BodyQ(sa)
    cell = qs.call_sites(r"RefCell::<T>::new$")
    if len(cell) == 1 and qs.root_param(cell[0][1]["args"][0]) == 1:
        chk.ok("R12.4", "starting_at stores its argument")
    else:
        chk.bad("R12.4", "starting_at stores its argument", "ScopedCounter::starting_at does not initialise the count from its argument", sa.file)
    # inc adds exactly 1, drop subtracts exactly 1
    for path, op in (("rscel::utils::scoped_counter::ScopedCounter::inc", "Add"), ("<rscel::utils::scoped_counter::ScopedCounterRef<'a> as std::ops::Drop>::drop", "Sub")):
        bb = F.body(path)
        ops = []
        for i, s in bb.stmts():
            rv = s.get("rv", {})
            if rv.get("k") == "binop" and rv["op"].startswith(("Add", "Sub")) and rv.get("aty") == "usize":
                ops.append((rv["op"].replace("WithOverflow", ""), lib.op_const_int(rv["b"])))
        if ops == [(op, 1)]:
            chk.ok("R12.4", lib.short(path) + "|%s 1" % op)
        else:
            chk.bad("R12.4", lib.short(path) + "|%s 1" % op, "%s must change the count by exactly one (found %s): acquire/release would not balance" % (path, ops), bb.file)

    # ---------------- R12.5
    rows = {}
    for path in ("<rscel::types::cel_value::CelValue as std::convert::From<serde_json::Value>>::from",
                 "<rscel::types::cel_value::CelValue as std::convert::From<&serde_json::Value>>::from"):
        bb = F.body(path)
        qq = mirq.BodyQ(bb)
        # the number cascade as a decision table (symbolic execution, private helpers inlined): i64 first, then u64, then f64
        import symex as _sx5, semtables as _st5

        class NumPolicy(_st5.LogicPolicy):
            max_paths = 4000

            def stub(self, interp, st, p_, c, args, t, caller):
                m_ = re.search(r"serde_json::Number::(as_i64|as_u64|as_f64)$", p_)
                if m_:
                    return [(st, ("call", m_.group(1), (), "std::option::Option<T>"))]
                return None
        num_rows = set()
        for st_, r_ in _sx5.Interp(F, NumPolicy()).run(bb, [_sx5.U("v", bb.local_ty(1))]):
            probes = tuple((str(c[3]), c[2]) for c in st_.cond if c[0] == "variant" and re.match(r"^as_(i64|u64|f64)\(\)$", str(c[3])))
            if probes:
                num_rows.add((probes, _sx5.render(r_)))
        want_num = {((("as_i64()", "Some"),), "CelValue::from_int(as_i64().Some.0)"),
                    ((("as_i64()", "None"), ("as_u64()", "Some")), "CelValue::from_uint(as_u64().Some.0)"),
                    ((("as_i64()", "None"), ("as_u64()", "None"), ("as_f64()", "Some")), "CelValue::from_float(as_f64().Some.0)")}
        if num_rows == want_num:
            chk.ok("R12.5", lib.short(path) + "|number cascade i64, u64, f64")
        else:
            chk.bad("R12.5", lib.short(path) + "|number cascade i64, u64, f64", "a JSON number must become an int when it is an i64, else a uint when it is a u64, else a double; found %s" % sorted(num_rows, key=str), bb.file)
        sw = qq.switches_on(F, "serde_json::Value") if any(a["path"] == "serde_json::Value" for a in F.adts.values()) else None
        ctors = sorted(set(re.sub(r".*::", "", p) for x_ in common.with_private_callees(F, bb) for p in common.callees_of(x_) if re.search(r"CelValue::from_(int|uint|float|string|bool|list|null|map)$", p)))
        rows[path] = ctors
    vals = list(rows.values())
    want = ["from_bool", "from_float", "from_int", "from_list", "from_map", "from_null", "from_string", "from_uint"]
    if vals[0] == vals[1] == want:
        chk.ok("R12.5", "siblings agree", {"constructors": want})
    else:
        chk.bad("R12.5", "siblings agree", "From<Value> and From<&Value> build different sets of values: %s vs %s (expected %s)" % (vals[0], vals[1], want), "rscel/src/types/cel_value.rs")

    chk.analysed = {"bodies": [POP, RUN_RAW, CALLABLE, "BindContext::bind_*", "CelContext::add_program", "ScopedCounter::*", "From<Value>/From<&Value>"],
                    "dispatch_arms": len(arms)}
    return chk.finish(
        "Look-up order decided by edge-cut reachability on the MIR CFG (a later look-up must be unreachable once the miss edge of the earlier is removed, "
        "and unreachable from its hit edge); replace-on-insert, depth-guard placement / release / inheritance and the JSON number cascade by call and operand facts. "
        "Decides the order and the guard structure, not the values produced.",
        ["rustc MIR + resolved callees", "Rust drop semantics for the guard", "hashbrown insert replaces"], ["default features", "user-bound functions outside the analysed program"],
        technique="MIR CFG edge-cut reachability (look-up dominance order) + call/operand origin rules")
