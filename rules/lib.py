"""Shared library for the rule evaluators: fact loading, CFG utilities,
call graph, reporting / evidence.  Stdlib only."""
import json, os, re, subprocess, sys, time, collections

VERIF = os.path.dirname(os.path.dirname(os.path.abspath(__file__)))
sys.path.insert(0, os.path.join(VERIF, "tools"))
import build_facts  # noqa: E402

REPO = build_facts.REPO


# --------------------------------------------------------------------------- facts

class Body:
    __slots__ = ("d", "crate", "id", "path", "kind", "file", "line", "blocks", "_dom", "_preds", "_succs", "pkg")

    def __init__(self, d, crate, pkg):
        self.d = d
        self.crate = crate
        self.pkg = pkg
        self.id = d["id"]
        self.path = d["path"]
        self.kind = d["kind"]
        self.file = d["file"]
        self.line = d["line"]
        self.blocks = d["blocks"]
        self._dom = None
        self._preds = None
        self._succs = None

    def __repr__(self):
        return "<Body %s>" % self.path

    # ---- CFG (normal edges only; unwind/cleanup ignored)
    def succs(self, i):
        if self._succs is None:
            self._succs = [term_succs(b["term"]) for b in self.blocks]
        return self._succs[i]

    def preds(self, i):
        if self._preds is None:
            p = [[] for _ in self.blocks]
            for j in range(len(self.blocks)):
                for s in self.succs(j):
                    p[s].append(j)
            self._preds = p
        return self._preds[i]

    def reachable_blocks(self, start=0, blocked=()):
        seen = set()
        st = [start]
        while st:
            b = st.pop()
            if b in seen or b in blocked:
                continue
            seen.add(b)
            st.extend(self.succs(b))
        return seen

    def dominators(self):
        """idom-free simple iterative dominator sets over normal edges."""
        if self._dom is not None:
            return self._dom
        n = len(self.blocks)
        reach = self.reachable_blocks()
        order = sorted(reach)
        dom = {b: set(reach) for b in reach}
        dom[0] = {0}
        changed = True
        while changed:
            changed = False
            for b in order:
                if b == 0:
                    continue
                ps = [p for p in self.preds(b) if p in reach]
                if not ps:
                    continue
                new = set.intersection(*(dom[p] for p in ps)) | {b}
                if new != dom[b]:
                    dom[b] = new
                    changed = True
        self._dom = dom
        return dom

    def dominates(self, a, b):
        d = self.dominators()
        return b in d and a in d[b]

    def terms(self, kind=None):
        for i, b in enumerate(self.blocks):
            t = b["term"]
            if t and (kind is None or t["k"] == kind) and not b.get("cleanup"):
                yield i, t

    def calls(self):
        return self.terms("call")

    def stmts(self):
        for i, b in enumerate(self.blocks):
            if b.get("cleanup"):
                continue
            for s in b["stmts"]:
                yield i, s

    def local_ty(self, l):
        return self.d["locals"][l]["ty"]

    def dbg_name(self, l):
        for v in self.d["dbg"]:
            if v["place"]["l"] == l and "p" not in v["place"]:
                return v["name"]
        return None


def term_succs(t):
    if t is None:
        return []
    k = t["k"]
    if k == "goto":
        return [t["t"]]
    if k == "switch":
        return [c[1] for c in t["cases"]] + [t["otherwise"]]
    if k in ("drop", "assert"):
        return [t["t"]]
    if k == "call":
        return [t["t"]] if t["t"] is not None else []
    return []


def callee_of(t):
    """Return (resolved_id, display_path, info) for a call terminator. resolved_id is
    None for indirect calls."""
    f = t["func"]
    c = f.get("const")
    if c and "fn" in c:
        rid = c.get("res", c["fn"])
        return rid, c.get("res_path", c["fn_path"]), c
    return None, t.get("fty", "?"), None


ANCHORS = os.path.join(VERIF, "tables", "anchors.json")


def _fn_sig(b):
    """signature of a function body without its own name: (parent path, type of the function item with the `{path}` suffix removed)"""
    ty = b.get("fn_ty") or ""
    ty = re.sub(r"\s*\{[^{}]*(\{[^{}]*\})?[^{}]*\}\s*$", "", ty)
    return b["path"].rsplit("::", 1)[0], ty, b.get("kind", "")


def anchor_renames(d, pkg):
    """{current pretty path / id -> the path / id the frozen anchor table knows} for functions that were merely renamed"""
    try:
        anchors = json.load(open(ANCHORS)).get(pkg)
    except Exception:
        anchors = None
    if not anchors:
        return {}
    regs = anchors.get("#registries", {})
    anchors = {k: v for k, v in anchors.items() if not k.startswith("#")}
    cur = {b["path"]: b for b in d["bodies"] if b.get("kind") in ("fn", "assoc_fn") and "{closure" not in b["path"]}
    missing = [p_ for p_ in anchors if p_ not in cur]
    extra = [p_ for p_ in cur if p_ not in anchors]
    if not missing or not extra:
        return {}
    moved = {}
    # (B) a registry row keeps its user-visible name while its implementation moved (and was perhaps renamed): the row identifies it.
    #     When the whole module of the old target went to the new target's module (same relative names), everything in it moves along.
    for r in d.get("registries", []):
        frozen = regs.get(r["path"]) or {}
        for row in r["rows"]:
            o_, n_ = frozen.get(row["name"]), row.get("target_path")
            if not o_ or not n_ or o_ == n_ or o_ in cur or o_ not in anchors or n_ in anchors or n_ not in cur:
                continue
            if list(_fn_sig(cur[n_])[1:]) != list(anchors[o_]["sig"][1:]):
                continue
            moved[n_] = o_
            po, pn = o_.rsplit("::", 1)[0] + "::", n_.rsplit("::", 1)[0] + "::"
            olds = {a_[len(po):] for a_ in anchors if a_.startswith(po)}
            news = {c_[len(pn):] for c_ in cur if c_.startswith(pn)}
            if po != pn and olds == news and all(po + x_ not in cur and pn + x_ not in anchors for x_ in olds):
                for x_ in olds:
                    moved[pn + x_] = po + x_
    # (C) a function that kept its name and signature but lives in another module / impl now (one candidate on either side)
    by_name = collections.defaultdict(list)
    for p_ in extra:
        if p_ not in moved:
            by_name[(p_.rsplit("::", 1)[1],) + tuple(_fn_sig(cur[p_])[1:])].append(p_)
    want_name = collections.defaultdict(list)
    for p_ in missing:
        if p_ not in moved.values():
            want_name[(p_.rsplit("::", 1)[1],) + tuple(anchors[p_]["sig"][1:])].append(p_)
    for key_, olds in want_name.items():
        news = by_name.get(key_, [])
        if len(olds) == 1 and len(news) == 1 and olds[0].rsplit("::", 1)[0] != news[0].rsplit("::", 1)[0]:
            moved[news[0]] = olds[0]
    missing = [p_ for p_ in missing if p_ not in moved.values()]
    extra = [p_ for p_ in extra if p_ not in moved]
    by_sig = collections.defaultdict(list)
    for p_ in extra:
        by_sig[tuple(_fn_sig(cur[p_]))].append(p_)
    want = collections.defaultdict(list)
    for p_ in missing:
        want[tuple(anchors[p_]["sig"])].append(p_)
    out = dict(moved)
    for sig, olds in want.items():
        news = by_sig.get(sig, [])
        if len(olds) == 1 and len(news) == 1:
            canon, now = olds[0], news[0]
            out[now] = canon
            nid = cur[now]["id"]
            out[nid] = nid.rsplit("::", 1)[0] + "::" + canon.rsplit("::", 1)[1]
    return out


class Facts:
    def __init__(self, directory):
        self.dir = directory
        self.meta = json.load(open(os.path.join(directory, "meta.json")))
        self.crates = {}
        self.bodies = {}      # id -> Body   (id unique per crate; ids carry crate name; python crate is 'rscel' too -> prefixed)
        self.by_path = collections.defaultdict(list)
        self.adts = {}
        self.registries = {}
        self.impls = []
        self.renamed = {}
        for name, fn in self.meta["crates"].items():
            d = json.load(open(os.path.join(directory, fn)))
            pkg = d.get("pkg") or name.split(".")[0]
            ren = anchor_renames(d, pkg)
            if ren:
                # a function was renamed (same module / impl, same signature, one missing and one new): read the facts under the name the rules know
                txt = open(os.path.join(directory, fn)).read()
                for old, new in sorted(ren.items(), key=lambda kv: -len(kv[0])):
                    txt = re.sub(re.escape(json.dumps(old)[1:-1]) + r"(?![\w])", lambda m_, new=new: json.dumps(new)[1:-1], txt)
                d = json.loads(txt)
                self.renamed.update(ren)
            self.crates[name] = d
            for b in d["bodies"]:
                body = Body(b, d["crate"], pkg)
                bid = body.id
                if pkg == "rscel_python":
                    # the python cdylib is also called `rscel`; keep its ids apart
                    bid = "py!" + bid
                    body.id = bid
                self.bodies[bid] = body
                self.by_path[body.path].append(body)
            for a in d["adts"]:
                a["pkg"] = pkg
                self.adts[("py!" if pkg == "rscel_python" else "") + a["id"]] = a
            for r in d["registries"]:
                r["pkg"] = pkg
                self.registries[r["path"]] = r
            for im in d["impls"]:
                im["pkg"] = pkg
                self.impls.append(im)
        synp = os.path.join(directory, "syn.json")
        self.syn = json.load(open(synp)) if os.path.exists(synp) else None
        self._cg = None

    def body(self, path, pkg=None):
        """Unique body by pretty path (exact), fail closed."""
        bs = [b for b in self.by_path.get(path, []) if pkg is None or b.pkg == pkg]
        if len(bs) != 1:
            raise MissingAnchor("expected exactly one body with path %r, found %d" % (path, len(bs)))
        return bs[0]

    def find(self, regex, pkg=None):
        r = re.compile(regex)
        return [b for b in self.bodies.values() if r.search(b.path) and (pkg is None or b.pkg == pkg)]

    def closures_of(self, body):
        pre = body.id + "::{closure#"
        return sorted([b for b in self.bodies.values() if b.id.startswith(pre)], key=lambda b: b.id)

    # ---- call graph
    def callgraph(self):
        if self._cg is None:
            self._cg = CallGraph(self)
        return self._cg


class MissingAnchor(Exception):
    pass


def iter_operands(obj):
    """Yield every operand dict ({copy|move|const: ..}) nested in a statement/terminator."""
    if isinstance(obj, dict):
        if "const" in obj and isinstance(obj["const"], dict) and "ty" in obj["const"]:
            yield obj
        elif ("copy" in obj or "move" in obj) and len(obj) == 1:
            yield obj
        else:
            for v in obj.values():
                yield from iter_operands(v)
    elif isinstance(obj, list):
        for v in obj:
            yield from iter_operands(v)


class CallGraph:
    """Whole-workspace call graph.  Direct edges from resolved callees; closure
    construction and function-item references count as edges (the closure / fn may be
    called by the receiver); indirect calls through the registries' dyn Fn types fan
    out to every registered function / macro; dyn-trait calls fan out to local impls."""

    def __init__(self, facts):
        self.f = facts
        self.edges = collections.defaultdict(set)      # body id -> set(callee id) (local or external)
        self.ext = collections.defaultdict(set)        # body id -> set(external callee path)
        self.sites = collections.defaultdict(list)     # (caller, callee) -> [(block, line)]
        func_targets = set()
        macro_targets = set()
        for r in facts.registries.values():
            for row in r["rows"]:
                if "target" not in row:
                    continue
                # the alias names (RsCelFunction / RsCelMacro) are expanded in the facts
                if "Interpreter<" in r["ty"] or "RsCelMacro" in r["ty"]:
                    macro_targets.add(row["target"])
                elif "dyn std::ops::Fn(" in r["ty"] or "RsCelFunction" in r["ty"]:
                    func_targets.add(row["target"])
        self.func_targets = func_targets
        self.macro_targets = macro_targets
        # trait method name -> local impl bodies   e.g. ("Tokenizer","next") -> [...]
        self.trait_impls = collections.defaultdict(list)
        for b in facts.bodies.values():
            m = re.match(r"^<(.+) as ([^>]+?)(?:<.*>)?>::(\w+)$", b.path)
            if m:
                tr = m.group(2).split("::")[-1]
                self.trait_impls[(tr, m.group(3))].append(b.id)
        for b in facts.bodies.values():
            self._scan(b)

    def _add(self, b, callee, blk, line):
        self.edges[b.id].add(callee)
        self.sites[(b.id, callee)].append((blk, line))

    def _scan(self, b):
        pfx = "py!" if b.pkg == "rscel_python" else ""
        for i, blk in enumerate(b.blocks):
            if blk.get("cleanup"):
                continue
            t = blk["term"]
            items = list(blk["stmts"]) + ([t] if t else [])
            for it in items:
                line = it.get("line", 0)
                for op in iter_operands(it):
                    c = op.get("const")
                    if c and "fn" in c:
                        rid = c.get("res", c["fn"])
                        if c.get("res_kind") == "virtual" or ("res" not in c):
                            # unresolved / virtual trait method: fan out to local impls
                            m = re.match(r"^(?:<.*>|.*)::(\w+)::(\w+)$", c["fn_path"])
                            fan = []
                            if m:
                                fan = self.trait_impls.get((m.group(1), m.group(2)), [])
                                if m.group(1) == "Into":
                                    fan = fan + self.trait_impls.get(("From", "from"), [])
                            for x in fan:
                                self._add(b, x, i, line)
                            if not fan:
                                self._add(b, rid, i, line)
                        else:
                            if (pfx + rid) in self.f.bodies:
                                rid = pfx + rid
                            self._add(b, rid, i, line)
                if isinstance(it, dict) and it.get("k") == "assign":
                    rv = it["rv"]
                    if rv.get("k") == "agg" and rv.get("ak") in ("closure", "coroutine"):
                        d = rv["def"]
                        if (pfx + d) in self.f.bodies:
                            d = pfx + d
                        self._add(b, d, i, line)
            if t and t["k"] == "call":
                rid, path, c = callee_of(t)
                fty = t.get("fty", "")
                # calls through the registry types
                target_ty = fty + " " + " ".join(t.get("atys", [])[:1])
                if c is not None and re.search(r"::(Fn|FnMut|FnOnce)::call", c["fn_path"]):
                    recv = t["atys"][0] if t.get("atys") else ""
                    if "dyn" in recv and "CelValue, std::vec::Vec<" in recv and "Interpreter" not in recv:
                        for x in self.func_targets:
                            self._add(b, x, i, t["line"])
                    elif "dyn" in recv and "Interpreter" in recv:
                        for x in self.macro_targets:
                            self._add(b, x, i, t["line"])

    def reachable(self, roots):
        seen = set()
        parent = {}
        st = list(roots)
        for r in roots:
            parent[r] = None
        while st:
            x = st.pop()
            if x in seen:
                continue
            seen.add(x)
            for y in self.edges.get(x, ()):
                if y not in seen:
                    if y not in parent:
                        parent[y] = x
                    st.append(y)
        return seen, parent

    def path_to(self, parent, x):
        p = []
        while x is not None:
            p.append(x)
            x = parent.get(x)
        return list(reversed(p))

    def sccs(self, nodes):
        """Tarjan over the subgraph induced by `nodes` (local bodies)."""
        index = {}
        low = {}
        onst = set()
        st = []
        out = []
        counter = [0]
        nodes = set(nodes)
        sys.setrecursionlimit(100000)

        def strong(v):
            index[v] = low[v] = counter[0]
            counter[0] += 1
            st.append(v)
            onst.add(v)
            for w in self.edges.get(v, ()):
                if w not in nodes:
                    continue
                if w not in index:
                    strong(w)
                    low[v] = min(low[v], low[w])
                elif w in onst:
                    low[v] = min(low[v], index[w])
            if low[v] == index[v]:
                comp = []
                while True:
                    w = st.pop()
                    onst.discard(w)
                    comp.append(w)
                    if w == v:
                        break
                out.append(comp)

        for v in sorted(nodes):
            if v not in index:
                strong(v)
        return out


# --------------------------------------------------------------------------- operands / places

def op_place(op):
    if "copy" in op:
        return op["copy"]
    if "move" in op:
        return op["move"]
    return None


def op_local(op):
    """local index if operand is a bare local, else None"""
    p = op_place(op)
    if p is not None and "p" not in p:
        return p["l"]
    return None


def op_const_int(op):
    c = op.get("const")
    if c and "int" in c:
        return int(c["int"])
    return None


def op_const_str(op):
    c = op.get("const")
    if c and c.get("ty", "").endswith("str") and "repr" in c:
        m = re.match(r'^(?:const )?"(.*)"$', c["repr"], re.S)
        if m:
            return m.group(1)
    return None


def place_key(p):
    return json.dumps(p, sort_keys=True)


def short(path):
    """Compress a pretty path for reports."""
    return re.sub(r"\b(?:\w+::)+(\w+)", r"\1", path)


# --------------------------------------------------------------------------- known findings

def load_known():
    p = os.path.join(VERIF, "known_findings.json")
    if not os.path.exists(p):
        return {"findings": [], "fixed": []}
    return json.load(open(p))


# --------------------------------------------------------------------------- check driver

class Check:
    """Collects rule results for one property and writes evidence / replay files."""

    def __init__(self, pid, tier):
        self.pid = pid
        self.tier = tier
        self.t0 = time.time()
        self.violations = []      # dict(rule, key, msg, where)
        self.known_hits = []
        self.obligations = 0
        self.discharged = 0
        self.instances = []       # strings: distinct analysed instances (nontrivial)
        self.samples = []
        self.analysed = {}
        self.rules = []
        self.notes = []
        self.prefix = ""          # key prefix of the current pass (thorough tier: second configuration)
        self.defer = False
        self.passes = []
        self._finish_args = None
        known = load_known()
        self.known = {k["key"]: k for k in known.get("findings", []) if k["property"] == pid}

    def rule(self, rid, text):
        if not any(r["id"] == rid for r in self.rules):
            self.rules.append({"id": rid, "rule": text})

    def ok(self, rule, key, sample=None):
        """an obligation that was examined and holds"""
        key = self.prefix + str(key)
        self.obligations += 1
        self.discharged += 1
        self.instances.append("%s|%s" % (rule, key))
        if sample is not None and len(self.samples) < 40:
            self.samples.append({"rule": rule, "instance": key, "result": "holds", "detail": sample})

    def bad(self, rule, key, msg, where=""):
        """an obligation that fails; suppressed only by an exact known-finding key"""
        full = "%s|%s" % (rule, key)          # known findings are keyed without the pass prefix: the same construct in every configuration
        shown = self.prefix + str(key)
        if any(v["rule"] == rule and v["key"] == shown for v in self.violations):
            return
        self.obligations += 1
        self.instances.append("%s|%s" % (rule, shown))
        if full in self.known:
            if not any(k == full for k, _ in self.known_hits):
                self.known_hits.append((full, self.known[full]))
            self.discharged += 0
            return
        self.violations.append({"rule": rule, "key": shown, "msg": msg, "where": where})

    def floor(self, rule, what, got, floor):
        """instance floor: a rule that matches fewer sites than were confirmed by hand fails closed"""
        if got < floor:
            self.bad(rule, "floor:%s" % what,
                     "rule matched %d instance(s) of %s, fewer than the %d confirmed by reading the code - "
                     "anchor moved or rule went vacuous (fail closed)" % (got, what, floor))
        else:
            self.ok(rule, "floor:%s>=%d" % (what, floor))

    def finish(self, explanation, trusted_base, assumptions, exhaustive=True, technique=""):
        if self.defer:
            self._finish_args = (explanation, trusted_base, assumptions, exhaustive, technique)
            return 1 if self.violations else 0
        return self.finalize(explanation, trusted_base, assumptions, exhaustive, technique)

    def finalize(self, explanation=None, trusted_base=None, assumptions=None, exhaustive=True, technique=""):
        if explanation is None and self._finish_args:
            explanation, trusted_base, assumptions, exhaustive, technique = self._finish_args
        explanation = explanation or ""
        trusted_base = trusted_base or []
        assumptions = assumptions or []
        if self.passes:
            self.analysed = dict(self.analysed, passes=self.passes)
        wall = time.time() - self.t0
        os.makedirs(os.path.join(VERIF, "evidence"), exist_ok=True)
        os.makedirs(os.path.join(VERIF, "replay"), exist_ok=True)
        for full, k in self.known_hits:
            print("KNOWN-FINDING: property=%s %s -- %s" % (self.pid, full, k.get("what", "")))
        rp = None
        if self.violations:
            rp = os.path.join(VERIF, "replay", "%s.json" % self.pid)
            json.dump({"property": self.pid, "tier": self.tier, "violations": self.violations,
                       "how_to_replay": "./check %s %s  (static: re-analyses /repo's working tree; the report names the construct)" % (self.pid, self.tier)},
                      open(rp, "w"), indent=1)
            for v in self.violations:
                print("  violation rule=%s instance=%s\n    %s\n    at %s" % (v["rule"], v["key"], v["msg"], v["where"]))
        distinct = len(set(self.instances))
        ev = {
            "property_id": self.pid,
            "tier": self.tier,
            "seed": int(os.environ.get("VERIF_SEED", "0") or 0),
            "level": "other",
            "coverage": {
                "explanation": explanation,
                "obligations": self.obligations,
                "discharged": self.discharged,
                "evaluations": max(self.obligations, 1),
                "distinct_nontrivial": distinct,
                "rule": "static rule instances enumerated from /repo's current MIR/HIR/syntax facts; an instance is "
                        "one (rule, construct) pair; distinct = distinct keys",
                "samples": self.samples[:40] or [{"note": "no instances"}],
                "exhaustive": exhaustive,
                "analysed": self.analysed,
                "rules": self.rules,
                "trusted_base": trusted_base,
                "checker_cmd": "./check %s %s" % (self.pid, self.tier),
                "technique": technique,
                "known_findings_reported": [k for k, _ in self.known_hits],
                "notes": self.notes,
            },
            "assumptions": assumptions,
            "wall_s": round(wall, 2),
            "violations": len(self.violations),
        }
        json.dump(ev, open(os.path.join(VERIF, "evidence", "%s.json" % self.pid), "w"), indent=1)
        print("[%s %s] obligations=%d discharged=%d violations=%d known=%d distinct=%d wall=%.1fs" % (
            self.pid, self.tier, self.obligations, self.discharged, len(self.violations), len(self.known_hits), distinct, wall))
        if self.violations:
            print("VIOLATION property=%s replay=%s" % (self.pid, rp))
            return 1
        return 0


def get_facts(config=None):
    """facts of /repo's current tree in the given cargo configuration (default: $VERIF_CONFIG or 'default')"""
    config = config or os.environ.get("VERIF_CONFIG") or "default"
    d = build_facts.build(config)
    return Facts(d)
