"""Emission templates of the compiler: symbolic execution (symex) of each parse function of
rscel::compiler::compiler::CelCompiler with its sub-parses replaced by opaque children.

For every feasible builder path of a parse function this yields the CompiledProg it returns:
  * inner = ConstExpr(fold term)  or  Bytecode(sequence of code points over the children's code),
  * details = the set of parameter sources that reach the node's ProgramDetails,
together with the AST node, the order of sub-parse / tokenizer calls and the path condition.
Children are named by the order of the sub-parse calls: child k has code `code:k`, constant `const:k`, parameters
`params:k` and syntax tree `ast:k`."""
import re, collections
import lib, symex
from symex import U, I, UNIT, adt, ok, some, NONE, render

CC = "rscel::compiler::compiler::CelCompiler::<'l>::"
PRBC = "rscel::compiler::compiled_prog::preresolved::PreResolvedByteCode"
PRCP = "rscel::compiler::compiled_prog::preresolved::PreResolvedCodePoint"
CPROG = "rscel::compiler::compiled_prog::CompiledProg"
NODEV = "rscel::compiler::compiled_prog::NodeValue"
PDET = "rscel::program::program_details::ProgramDetails"
BYTECODE = "rscel::interp::types::bytecode::ByteCode"
CELBC = "rscel::types::cel_byte_code::CelByteCode"

# parse functions that are analysed as roots and replaced by an opaque child when called
LEVELS = ["parse_expression", "parse_expression_inner", "parse_turnary_expression", "parse_match_expression", "parse_match_pattern",
          "parse_conditional_or", "parse_conditional_and", "parse_relation", "parse_addition", "parse_multiplication", "parse_unary",
          "parse_not_list", "parse_neg_list", "parse_member", "parse_primary"]
INLINE_PREFIX = ("rscel::compiler::compiled_prog::", "rscel::program::program_details::ProgramDetails::", "rscel::compiler::grammar::",
                 "rscel::compiler::ast_node::AstNode", "rscel::compiler::compiler::pattern_utils::", "<rscel::compiler::compiled_prog::",
                 "<rscel::compiler::grammar::")
INLINE_METHODS = ("parse_expression_list", "parse_obj_inits", "check_for_const", "enter_nested", "leave_nested")
# atoms of the rules (R09.3 / R09.6 read them as predicates), and the label counter
OPAQUE_METHODS = ("reads_clock", "holds_error", "new_label", "with_tokenizer", "compile")


# parse functions whose result is code by construction (base case CompiledProg::empty(), steps append an opcode): their children are
# modelled as Bytecode nodes; R09.1 re-checks the claim on their own templates (induction)
NEVER_CONST = ("parse_not_list", "parse_neg_list")


def child_prog(k, callee=""):
    det = adt(PDET, "ProgramDetails", (U("source:%d" % k), ("set", (("splice", "params:%d" % k),)), U("astslot:%d" % k)))
    if callee in NEVER_CONST:
        return adt(CPROG, "CompiledProg", (adt(NODEV, "Bytecode", (prbc([("splice", "code:%d" % k)]),)), det))
    return adt(CPROG, "CompiledProg", (U("child%d.inner" % k, NODEV), det))


def child_ast(k, ty=""):
    return U("ast:%d" % k, ty)


def prbc(items):
    return adt(PRBC, "PreResolvedByteCode", (("seq", tuple(items)), U("len")))


def as_codepoint(v):
    """normalise a ByteCode value into a PreResolvedCodePoint::Bytecode"""
    if v[0] == "adt" and v[1] == BYTECODE:
        return adt(PRCP, "Bytecode", (v,))
    return v


class CompilerPolicy(symex.Policy):
    loop_limit = 3
    max_paths = 6000
    max_steps = 40000000     # a parse function split into helpers re-executes shared tails; the budget only bounds run-away extraction
    cut_errors = True

    def __init__(self, root):
        self.root = root
        self.root_limit = 3
        self._outer = None
        self._inner = set()

    def limit_for(self, body, blk):
        DEEP = 0 if self.root == "parse_member" else globals()["DEEP"]     # the postfix loop multiplies argument-list paths: keep it at the quick depth
        # the root's outermost loop(s): root_limit (the loop-carried node is an arbitrary CompiledProg, so one iteration on an
        # opaque child is the inductive step); every other loop (argument lists, builders): 3 = up to two elements
        if body.path == CC + self.root:
            if self._outer is None:
                self._outer, self._inner = outer_loop_headers(body)
            if blk in self._inner:
                return 3 + DEEP          # loops nested in the root's own loop (argument lists, segment lists)
            return self.root_limit
        if body.path.startswith(CC) and "{closure" not in body.path:
            return 3 + DEEP       # parse_expression_list / parse_obj_inits: up to two (thorough: three) elements / entries
        return 12          # builder helpers iterate over the (already bounded) concrete child vectors

    def inline(self, path, body):
        if path.startswith(INLINE_PREFIX):
            return True
        if path.startswith(CC) and path[len(CC):] in INLINE_METHODS:
            return True
        if path.startswith(CC) and "::{closure" in path:
            return True
        # any other helper of the compiler that is not a grammar level (a routine split off a parse function): part of the function that calls it
        if path.startswith(CC) and path[len(CC):] not in LEVELS and path[len(CC):] not in OPAQUE_METHODS and "::" not in path[len(CC):]:
            return True
        return False

    def refine(self, value, ty, variant):
        if value[0] == "u" and value[1].startswith("child") and value[1].endswith(".inner") and ty == NODEV:
            k = int(value[1][5:-6])
            if variant == "ConstExpr":
                return adt(NODEV, "ConstExpr", (U("const:%d" % k, "CelValue"),))
            return adt(NODEV, "Bytecode", (prbc([("splice", "code:%d" % k)]),))
        return None

    def collect_into(self, interp, st, head, dty, seqv):
        if head == PRBC:
            return prbc([as_codepoint(x) for x in seqv[1]])
        if head == CELBC:
            return ("cbc", seqv[1])
        return None

    def stub(self, interp, st, path, c, args, t, caller):
        if path.startswith(CC):
            m = path[len(CC):]
            if m in LEVELS and not (m == self.root and False):
                k = sum(1 for e in st.trace if e[0] == "parse")
                st.event("parse", k, m, tuple(render(a) for a in args[1:]), render(args[0]) if args else "?")
                dty = t.get("dty", "")
                cp = child_prog(k, m)
                # a level function that receives an already parsed node (parse_turnary_expression(lhs_node, ..)) reports that node's
                # identifiers as well: its own template is checked for exactly that (induction over the callee)
                extra = []
                for a in args[1:]:
                    if a[0] == "adt" and a[1] == CPROG and a[3] is not None:
                        d = a[3][1]
                        if d[0] == "adt" and d[3] is not None and d[3][1][0] == "set":
                            extra.extend(d[3][1][1])
                if extra:
                    det = cp[3][1]
                    items = tuple(sorted(set(det[3][1][1]) | set(extra), key=repr))
                    det2 = ("adt", det[1], det[2], (det[3][0], ("set", items), det[3][2]), det[4])
                    cp = ("adt", cp[1], cp[2], (cp[3][0], det2), cp[4])
                return [(st, ok(("tup", (cp, child_ast(k)))))]
            if m == "new_label":
                n = sum(1 for e in st.trace if e[0] == "label")
                st.event("label", n)
                return [(st, ("label", n))]
        if re.search(r"tokenizer::Tokenizer::(peek|next|location|source)$", path) or re.search(r"as rscel::compiler::tokenizer::Tokenizer>::(peek|next|location|source)$", path):
            what = path.rsplit("::", 1)[-1]
            n = sum(1 for e in st.trace if e[0] == "tok")
            st.event("tok", n, what)
            dty = t.get("dty", "")
            if what in ("peek", "next"):
                inner = re.sub(r"^std::result::Result<(.*), rscel::compiler::syntax_error::SyntaxError>$", r"\1", dty)
                return [(st, ok(U("%s#%d" % (what, n), inner)))]
            return [(st, U("%s#%d" % (what, n), dty))]
        # ---- PreResolvedByteCode API (summarised; its own MIR is checked separately by C10 R10.5)
        if path.startswith(PRBC + "::") or path.startswith("<" + PRBC + " as"):
            m = path.rsplit("::", 1)[-1]
            if m == "new":
                return [(st, prbc([]))]
            if m in ("push", "extend"):
                cur = symex._target(interp, st, args[0])
                items = self.code_items(interp, st, cur)
                if items is None:
                    return None
                if m == "push":
                    new = [as_codepoint(self.conv_into(interp, st, args[1]))]
                    symex._store(interp, st, args[0], prbc(items + new))
                    return [(st, UNIT)]
                src = symex._target(interp, st, args[1])
                if src[0] != "iter":
                    its = symex._as_items(interp, st, args[1])
                    if its is None:
                        return None
                    src = ("iter", "seq", (tuple(its), 0))
                out = []
                for (s2, its) in symex.drain(interp, st, src, 0):
                    symex._store(interp, s2, args[0], prbc(items + [as_codepoint(x) for x in its]))
                    out.append((s2, UNIT))
                return out
            if m == "into_iter":
                items = self.code_items(interp, st, args[0])
                if items is None:
                    return None
                return [(st, ("iter", "seq", (tuple(items), 0)))]
            if m == "len":
                return [(st, ("un", "codelen", symex._target(interp, st, args[0])))]
            if m == "resolve":
                items = self.code_items(interp, st, args[0])
                return [(st, ("cbc-resolved", tuple(items) if items is not None else (("splice", render(args[0])),)))]
            if m == "from" or m == "from_iter":
                v = symex._target(interp, st, args[0])
                if v[0] == "cbc":
                    return [(st, prbc([as_codepoint(x) for x in v[1]]))]
                if v[0] == "cbc-resolved":
                    return [(st, prbc([("block", v[1])]))]
                if v[0] == "iter":
                    out = []
                    for (s2, its) in symex.drain(interp, st, v, 0):
                        out.append((s2, prbc([as_codepoint(x) for x in its])))
                    return out
                return [(st, prbc([("splice", render(v))]))]
        if re.search(r"<T as std::convert::Into<U>>::into$", path) or re.search(r"std::convert::Into<.*>>::into$", path):
            g = c.get("gargs", [])
            if len(g) >= 2:
                if g[0] == BYTECODE and g[1] == PRCP:
                    return [(st, as_codepoint(args[0]))]
                if g[1] == PRBC:
                    v = symex._target(interp, st, args[0])
                    if v[0] == "cbc":
                        return [(st, prbc([as_codepoint(x) for x in v[1]]))]
                    if v[0] == "cbc-resolved":
                        return [(st, prbc([("block", v[1])]))]
                    its = symex._as_items(interp, st, args[0])
                    if its is not None:
                        return [(st, prbc([as_codepoint(x) for x in its]))]
                if g[0] == g[1]:
                    return [(st, args[0])]
                # look for a local From impl to inline
                want = "<%s as std::convert::From<%s>>::from" % (g[1], g[0])
                bs = interp.F.by_path.get(want, [])
                bs = [b for b in bs if b.pkg == "rscel"]
                if len(bs) == 1 and want.startswith(("<rscel::compiler", "<rscel::program")):
                    return interp.run_body(st, bs[0], args, 1)
                return [(st, ("call", "into<%s>" % g[1].split("::")[-1], tuple(args), t.get("dty", "")))]
        if path.endswith("syntax_error::SyntaxError::from_location") and self.cut_errors:
            st.event("syntax-error", render(args[0]))
            return []
        if path == "<" + PRCP + " as std::convert::From<" + BYTECODE + ">>::from":
            return [(st, as_codepoint(args[0]))]
        return None

    def conv_into(self, interp, st, v):
        return v

    def code_items(self, interp, st, v):
        v = symex._target(interp, st, v)
        if v[0] == "adt" and v[1] == PRBC and v[3] is not None:
            inner = v[3][0]
            if inner[0] == "seq":
                return list(inner[1])
            return [("splice", render(inner))]
        if v[0] in ("u", "pj", "call"):
            return [("splice", render(v))]
        return None

    def pure(self, path):
        return True

    def trace_key(self, trace):
        return tuple(e for e in trace if e[0] != "tok")


def outer_loop_headers(body):
    """headers of natural loops of `body` that are not nested in another loop"""
    dom = body.dominators()
    loops = {}
    for u in dom:
        for v in body.succs(u):
            if v in dom.get(u, ()):        # back edge u -> v
                # natural loop of the back edge
                nodes = {v, u}
                st = [u]
                while st:
                    x = st.pop()
                    for p in body.preds(x):
                        if p not in nodes and p in dom:
                            nodes.add(p)
                            st.append(p)
                loops.setdefault(v, set()).update(nodes)
    outer = set()
    inner_nodes = set()
    for h, nodes in loops.items():
        if not any(h in n2 and h2 != h for h2, n2 in loops.items()):
            outer.add(h)
        else:
            inner_nodes |= nodes
    return outer, inner_nodes


class PathResult:
    __slots__ = ("cond", "trace", "kind", "items", "fold", "details", "ast", "ret", "state")


def details_of(v):
    """set of parameter sources in a ProgramDetails value"""
    if v[0] == "adt" and v[1] == PDET and v[3] is not None:
        p = v[3][1]
        if p[0] == "set":
            out = set()
            for x in p[1]:
                if x[0] == "splice":
                    out.add(x[1])
                else:
                    out.add("ident:" + render(x))
            return out
        return {"?" + render(p)}
    return {"?" + render(v)}


def decode_cp(v):
    """CompiledProg value -> (kind, items|fold, details)"""
    if v[0] != "adt" or v[1] != CPROG or v[3] is None:
        return ("?", render(v), {"?"})
    inner, det = v[3][0], v[3][1]
    d = details_of(det)
    if inner[0] == "adt" and inner[1] == NODEV:
        if inner[2] == "ConstExpr":
            return ("const", inner[3][0] if inner[3] else U("?"), d)
        if inner[2] == "Bytecode":
            b = inner[3][0] if inner[3] else U("?")
            if b[0] == "adt" and b[1] == PRBC and b[3] is not None and b[3][0][0] == "seq":
                return ("code", list(b[3][0][1]), d)
            return ("code", [("splice", render(b))], d)
    if inner[0] == "u" and inner[1].startswith("child") and inner[1].endswith(".inner"):
        k = int(inner[1][5:-6])
        return ("child", k, d)
    return ("?", render(inner), d)


def analyse(F, method, loop_limit=3, args=None, max_paths=40000):
    """symbolically execute CelCompiler::<method>; returns (list of PathResult for Ok returns, interp)"""
    body = F.body(CC + method)
    pol = CompilerPolicy(method)
    pol.root_limit = loop_limit
    pol.max_paths = max_paths
    it = symex.Interp(F, pol)
    n = body.d["arg_count"]
    st = symex.State()
    a = [U("self", "&mut CelCompiler")]
    if args is not None:
        a = a + list(args)
    else:
        # extra parameters: CompiledProg / AstNode children, Token
        for i in range(2, n + 1):
            ty = body.local_ty(i)
            if ty == CPROG:
                k = sum(1 for e in st.trace if e[0] == "parse")
                st.event("parse", k, "<param %d>" % i, ())
                a.append(child_prog(k))
            elif "AstNode<" in ty:
                k = max(0, sum(1 for e in st.trace if e[0] == "parse") - 1)
                a.append(child_ast(k, ty))
            else:
                a.append(U("param%d" % i, ty))
    outs = it.run(body, a, st)
    res = []
    for (s2, ret) in outs:
        if not (ret[0] == "adt" and ret[2] == "Ok" and ret[3]):
            continue
        payload = ret[3][0]
        pr = PathResult()
        pr.cond, pr.trace, pr.ret, pr.state = s2.cond, s2.trace, ret, s2
        cp = payload[1][0] if payload[0] == "tup" and payload[1] else payload
        pr.ast = payload[1][1] if payload[0] == "tup" and len(payload[1]) > 1 else None
        kind, x, d = decode_cp(cp)
        pr.kind, pr.details = kind, d
        pr.items = x if kind == "code" else None
        pr.fold = x if kind in ("const", "child", "?") else None
        res.append(pr)
    return res, it


# ------------------------------------------------------------------------------------ template items

def item_view(x):
    """normalised view of one code point: (kind, ...)
       ('op', name, operands) | ('jmp', label) | ('jmpcond', when, label) | ('label', label) | ('code', k) | ('rawjmp', ...) | ('unknown', text)"""
    if x[0] == "splice":
        m = re.match(r"^code:(\d+)$", x[1])
        if m:
            return ("code", int(m.group(1)))
        return ("unknown", x[1])
    if x[0] == "block":
        return ("block", x[1])
    if x[0] == "adt" and x[1] == PRCP:
        if x[2] == "Bytecode":
            b = x[3][0] if x[3] else None
            if b and b[0] == "adt" and b[1] == BYTECODE:
                nm = b[2]
                ops = b[3] or ()
                if nm in ("Jmp", "JmpCond"):
                    return ("rawjmp", nm, tuple(render(o) for o in ops))
                if nm == "Push" and ops and ops[0][0] == "u" and ops[0][1].startswith("const:"):
                    return ("code", int(ops[0][1][6:]))
                return ("op", nm, ops)
            return ("unknown", render(x))
        if x[2] == "Jmp":
            return ("jmp", label_of(x[3][0]))
        if x[2] == "JmpCond":
            w = x[3][0]
            return ("jmpcond", w[2] if w[0] == "adt" else render(w), label_of(x[3][1]))
        if x[2] == "Label":
            return ("label", label_of(x[3][0]))
    return ("unknown", render(x)[:120])


def label_of(v):
    if v[0] == "label":
        return v[1]
    return "?" + render(v)


def show_items(items):
    out = []
    for x in items:
        v = item_view(x)
        if v[0] == "op":
            out.append(v[1] + ("(%s)" % ", ".join(render(o)[:60] for o in v[2]) if v[2] else ""))
        elif v[0] == "code":
            out.append("<%d>" % v[1])
        elif v[0] == "jmp":
            out.append("JMP L%s" % v[1])
        elif v[0] == "jmpcond":
            out.append("JMPCOND %s L%s" % (v[1], v[2]))
        elif v[0] == "label":
            out.append("L%s:" % v[1])
        elif v[0] == "block":
            out.append("{resolved: %s}" % show_items(v[1]))
        elif v[0] == "rawjmp":
            out.append("RAW-%s%s" % (v[1], v[2]))
        else:
            out.append("?%s" % (v[1:],))
    return " ".join(out)


# ------------------------------------------------------------------------------------ template database (cached per tree)

import os as _os
DEEP = 1 if _os.environ.get("VERIF_DEEP") == "1" else 0     # thorough tier: one more loop iteration everywhere

ROOTS = [("parse_expression", 3), ("parse_expression_inner", 3), ("parse_turnary_expression", 3), ("parse_match_expression", 3),
         ("parse_match_pattern", 3), ("parse_conditional_or", 3), ("parse_conditional_and", 3), ("parse_relation", 3),
         ("parse_addition", 3), ("parse_multiplication", 3), ("parse_unary", 3), ("parse_not_list", 3), ("parse_neg_list", 3),
         ("parse_member", 2), ("parse_primary", 3)]


def find_block(v, depth=0):
    """a nested code block (resolved or collected) inside an operand value, else None"""
    if depth > 8 or not isinstance(v, tuple) or not v:
        return None
    if v[0] in ("cbc-resolved", "cbc"):
        return v
    if v[0] in ("adt",) and v[3]:
        for x in v[3]:
            r = find_block(x, depth + 1)
            if r is not None:
                return r
    if v[0] == "call":
        for x in v[2]:
            r = find_block(x, depth + 1)
            if r is not None:
                return r
    return None


def item_json(x):
    v = item_view(x)
    k = v[0]
    if k == "op":
        out = {"k": "op", "name": v[1], "args": [render(o)[:200] for o in v[2]]}
        for o in v[2]:
            b = find_block(o)
            if b is not None:
                out["nested"] = [item_json(as_codepoint(y)) for y in b[1]]
                out["nested_kind"] = b[0]
        return out
    if k == "code":
        return {"k": "code", "child": v[1]}
    if k == "jmp":
        return {"k": "jmp", "label": v[1]}
    if k == "jmpcond":
        return {"k": "jmpcond", "when": v[1], "label": v[2]}
    if k == "label":
        return {"k": "label", "label": v[1]}
    if k == "block":
        return {"k": "block", "items": [item_json(as_codepoint(y)) for y in v[1]]}
    if k == "rawjmp":
        return {"k": "rawjmp", "name": v[1], "args": list(v[2])}
    return {"k": "unknown", "text": str(v[1])[:200]}


def val_json(v, st, depth=0):
    """structured JSON of a value (AST nodes): pointers are resolved through the path's heap"""
    if depth > 14:
        return "..."
    k = v[0]
    if k == "u":
        return {"u": v[1]}
    if k == "i":
        return v[1]
    if k == "s":
        return v[1]
    if k == "unit":
        return None
    if k == "adt":
        if v[1].endswith("boxed::Box") and v[3]:
            # Box<T>: show the pointee
            p = None
            stack = [v]
            while stack and p is None:
                y = stack.pop()
                if y[0] == "ptr":
                    p = y
                elif y[0] == "adt" and y[3]:
                    stack.extend(y[3])
            if p is not None:
                return {"box": val_json(st.heap.get(p[1], U("heap")), st, depth + 1)}
        return {"adt": v[1].split("::")[-1], "variant": v[2], "fields": None if v[3] is None else [val_json(x, st, depth + 1) for x in v[3]], "origin": v[4]}
    if k == "tup":
        return {"tup": [val_json(x, st, depth + 1) for x in v[1]]}
    if k == "seq":
        return {"seq": [val_json(x, st, depth + 1) for x in v[1]]}
    if k == "call":
        return {"call": v[1], "args": [val_json(x, st, depth + 1) for x in v[2]]}
    if k == "pj":
        return {"pj": val_json(v[1], st, depth + 1), "e": str(v[2])}
    if k == "ptr":
        return {"box": val_json(st.heap.get(v[1], U("heap")), st, depth + 1)}
    if k == "lref":
        return {"ref": render(v)}
    if k == "splice":
        return {"splice": v[1]}
    return {"?": render(v)[:120]}


def path_json(root, r):
    parses = [(e[1], e[2]) for e in r.trace if e[0] == "parse"]
    d = {"root": root, "kind": r.kind, "details": sorted(r.details), "parses": parses,
         "parse_recv": [(e[1], e[2], e[4] if len(e) > 4 else "self") for e in r.trace if e[0] == "parse"],
         "cond": [list(map(lambda z: list(z) if isinstance(z, tuple) else z, c)) for c in r.cond],
         "toks": [(e[1], e[2]) for e in r.trace if e[0] == "tok"],
         "labels": sum(1 for e in r.trace if e[0] == "label"),
         "trace": [[e[0], e[1], e[2] if len(e) > 2 else None] for e in r.trace if e[0] in ("parse", "tok", "label")]}
    if r.kind == "code":
        d["items"] = [item_json(x) for x in r.items]
        d["text"] = show_items(r.items)
    elif r.kind == "child":
        d["child"] = r.fold
        d["text"] = "CHILD %d" % r.fold
    else:
        d["fold"] = render(r.fold)
        d["fold_json"] = val_json(r.fold, r.state)
        d["text"] = "%s %s" % (r.kind.upper(), render(r.fold)[:300])
    d["ast"] = val_json(r.ast, r.state) if r.ast is not None else None
    return d


def _one(args):
    F, m, lim = args
    try:
        res, it = analyse(F, m, lim + (DEEP if m not in ("parse_member", "parse_relation") else 0), max_paths=40000 * (4 if DEEP else 1))
        return m, [path_json(m, r) for r in res], dict(it.unhandled.most_common(60)), None
    except symex.TooManyPaths as e:
        return m, [], {}, "too many paths: %s" % e
    except Exception as e:   # fail closed, report the construct
        import traceback
        return m, [], {}, "symbolic execution failed: %s\n%s" % (e, traceback.format_exc()[-1500:])


_F = None


def _worker(a):
    return _one((_F, a[0], a[1]))


def build_db(F, force=False):
    """templates of all parse functions, cached next to the facts (keyed by the analyser's own source)"""
    import hashlib, json, os, multiprocessing
    here = os.path.dirname(os.path.abspath(__file__))
    h = hashlib.sha256()
    for fn in ("symex.py", "ctemplates.py"):
        h.update(open(os.path.join(here, fn), "rb").read())
    h.update(b"deep" if DEEP else b"")
    cache = os.path.join(F.dir, "templates.%s.json" % h.hexdigest()[:12])
    if os.path.exists(cache) and not force:
        return json.load(open(cache))
    global _F
    _F = F
    ctx = multiprocessing.get_context("fork")
    with ctx.Pool(min(8, len(ROOTS))) as pool:
        outs = pool.map(_worker, ROOTS)
    db = {"roots": {}, "errors": {}, "unhandled": {}}
    for m, paths, unh, errx in outs:
        db["roots"][m] = paths
        db["unhandled"][m] = unh
        if errx:
            db["errors"][m] = errx
    tmp = cache + ".tmp%d" % os.getpid()
    json.dump(db, open(tmp, "w"))
    os.replace(tmp, cache)
    return db
