"""C17 the reported parameter list covers every variable a program can read.

Decides a data-flow obligation on the compiler, by induction over the grammar: IF every sub-parse reports the identifiers of its
own sub-tree THEN every node does.  For every builder path of every parse function (templates from symbolic execution of the MIR)
the ProgramDetails of the returned node must contain the parameter set of EVERY sub-program that was parsed on that path - also
when the operand's code was folded away, sits in an untaken ?: branch, became a call argument block or an f-string segment.
  R17.1 details completeness per path: params(node) >= union of params(child k) for all children parsed on the path
  R17.2 an identifier primary registers the token's own text; add_param is reached only from add_ident (no invented names)
  R17.3 the details travel unchanged into the Program (into_program) and Program::params() reads them
  R17.4 filter_from_bindings keeps a name iff it is not bound as variable, function or macro (is_bound = three contains_key, or-ed);
        IdentFilterIter skips exactly the bound names; the wasm consumer filters against BindContext::new()
Not decided: the evaluation-relevance criterion (follows from the superset property)."""
import re
import lib, mirq, tplrules, ctemplates

CC = ctemplates.CC


def run(chk, tier):
    F = lib.get_facts()
    chk.rule("R17.1", "on every builder path the node's details contain the details of every sub-program parsed on that path")
    chk.rule("R17.2", "identifier primaries register the token's own text; add_param only via add_ident")
    chk.rule("R17.3", "details travel unchanged into the Program")
    chk.rule("R17.4", "filter_from_bindings removes exactly the names bound as variable, function or macro")
    db = tplrules.load(F)
    for m, e in db["errors"].items():
        chk.bad("R17.1", "extract|" + m, "template extraction failed: " + e[:200], "rscel/src/compiler/compiler.rs")
    npaths = 0
    for m, paths in sorted(db["roots"].items()):
        worst = {}
        for p in paths:
            npaths += 1
            need = set("params:%d" % k for k, _ in p["parses"])
            have = set(d for d in p["details"] if d.startswith("params:"))
            odd = [d for d in p["details"] if d.startswith("?")]
            missing = sorted(need - have)
            shape = re.sub(r"const:\d+|<\d+>|c\d+", "_", p["text"])[:70]
            key = "%s|%s|missing %s" % (m, shape, ",".join(missing) or "-")
            if odd:
                worst.setdefault("%s|undecodable details" % m, (p, odd))
            elif missing:
                worst.setdefault(key, (p, missing))
        if not worst:
            chk.ok("R17.1", m, "%d paths" % len(paths))
        for key, (p, missing) in sorted(worst.items()):
            callees = {k: c for k, c in p["parses"]}
            chk.bad("R17.1", key, "%s: the identifiers of sub-expression(s) %s are lost: the node reports %s but parsed %s   [result: %s]" % (
                m, ["%s (%s)" % (x, callees.get(int(x.split(":")[1]), "?")) for x in missing if ":" in x] or missing, sorted(p["details"]), [c for _, c in p["parses"]], p["text"][:160]),
                    "rscel/src/compiler/compiler.rs (%s)" % m)
    chk.floor("R17.1", "builder paths", npaths, 800)      # coverage is also floored per parse function (C10 R10.2); the path count itself varies with harmless restructuring
    # ---------------- R17.2
    idents = [p for p in db["roots"].get("parse_primary", []) if any(d.startswith("ident:") for d in p["details"])]
    okid = [p for p in idents if p["details"] == ["ident:next#0.Some.0.0.Ident.0"] and "from_ident(next#0.Some.0.0.Ident.0)" in p["text"]]
    if idents and len(okid) == len(idents):
        chk.ok("R17.2", "identifier primary registers its own text", okid[0]["text"][:100])
    else:
        chk.bad("R17.2", "identifier primary registers its own text", "parse_primary's identifier arm must push the identifier and register the same token text; found %s" % [(p["text"][:60], p["details"]) for p in idents[:3]], "rscel/src/compiler/compiler.rs")
    others = [(m, p["text"][:60], [d for d in p["details"] if d.startswith("ident:")]) for m, ps in db["roots"].items() for p in ps if m != "parse_primary" and any(d.startswith("ident:") for d in p["details"])]
    if others:
        chk.bad("R17.2", "names registered elsewhere", "a name that is not an identifier primary is reported as a parameter: %s" % others[:3], "rscel/src/compiler/compiler.rs")
    else:
        chk.ok("R17.2", "no other construct registers names")
    cg = F.callgraph()
    ap = F.body("rscel::program::program_details::ProgramDetails::add_param")
    callers = sorted(F.bodies[x].path for x, ys in cg.edges.items() if ap.id in ys and x in F.bodies and F.bodies[x].pkg == "rscel" and "::test" not in F.bodies[x].path)
    if callers == ["rscel::compiler::compiled_prog::CompiledProg::add_ident"]:
        chk.ok("R17.2", "add_param only from add_ident")
    else:
        chk.bad("R17.2", "add_param only from add_ident", "add_param is called from %s" % callers, ap.file)
    ai = F.body("rscel::compiler::compiled_prog::CompiledProg::add_ident")
    ex = mirq.call_exprs(mirq.BodyQ(ai), drop=None)
    if ex == ["ProgramDetails::add_param(p1.1, p2)"]:
        chk.ok("R17.2", "add_ident registers its argument on its own details")
    else:
        chk.bad("R17.2", "add_ident registers its argument on its own details", str(ex), ai.file)
    # ---------------- R17.3
    ip = F.body("rscel::compiler::compiled_prog::CompiledProg::into_program")
    ex = mirq.call_exprs(mirq.BodyQ(ip), drop=None)
    if any(re.match(r"^Program::new\(p1\.1, ", e) or re.match(r"^Program::new\(ProgramDetails::add_source!\(p1\.1", e) for e in ex) or any(e.startswith("Program::new(") and "p1.1" in e.split(",")[0] for e in ex):
        chk.ok("R17.3", "into_program carries the node's details", [e for e in ex if e.startswith("Program::new")][0][:120])
    else:
        chk.bad("R17.3", "into_program carries the node's details", "into_program must build the Program from the node's own details: %s" % ex, ip.file)
    pp = F.body("rscel::program::Program::params")
    ex = mirq.call_exprs(mirq.BodyQ(pp), drop=None)
    if ex == ["ProgramDetails::params(p1.0)"] or (len(ex) == 1 and ex[0].startswith("ProgramDetails::params(p1")):
        chk.ok("R17.3", "Program::params reads the details", ex[0])
    else:
        chk.bad("R17.3", "Program::params reads the details", str(ex), pp.file)
    cp = F.body(CC + "compile")
    ex = mirq.call_exprs(mirq.BodyQ(cp), drop=None)
    if any(e.startswith("CompiledProg::into_program(") and "parse_expression" in e for e in ex):
        chk.ok("R17.3", "compile() converts the root node")
    else:
        chk.bad("R17.3", "compile() converts the root node", str([e[:100] for e in ex]), cp.file)
    # ---------------- R17.4
    ib = F.body("rscel::context::bind_context::BindContext::<'a>::is_bound")
    # decision table of is_bound (symbolic execution, the context's own getters inlined): a name is bound iff it is found in the variable,
    # function or macro table - each table probed by key (contains_key, or get(..) being Some)
    import symex, semtables

    class BoundPolicy(semtables.LogicPolicy):
        def inline(self, path, body):
            return semtables.LogicPolicy.inline(self, path, body) or bool(re.search(r"BindContext::<'a>::get_(param|func|macro|type)$", path))
    it = symex.Interp(F, BoundPolicy())
    outs = it.run(ib, [symex.U("self", "&BindContext"), symex.U("name", "&str")])
    tab = set()
    fields = set()
    for st, r in outs:
        probes = []
        for c in st.cond:
            m_ = re.match(r"^HashMap::contains_key\(self\.(\d+), name\)$", str(c[1])) if c[0] in ("eq", "ne") else None
            if m_:
                probes.append((int(m_.group(1)), 1 if c[0] == "ne" else 0))
            m_ = re.match(r"^HashMap::get\(self\.(\d+), name\)$", str(c[3])) if c[0] == "variant" else None
            if m_:
                probes.append((int(m_.group(1)), 1 if c[2] == "Some" else 0))
        rr_ = symex.render(r)
        m_ = re.match(r"^(?:Option::is_some\()?HashMap::(?:contains_key|get)\(self\.(\d+), name\)\)?$", rr_)
        if m_:
            # the last probe is returned as it is: both of its outcomes
            k_ = int(m_.group(1))
            fields.update([f_ for f_, _ in probes] + [k_])
            tab.add((tuple(sorted(probes + [(k_, 1)])), "1"))
            tab.add((tuple(sorted(probes + [(k_, 0)])), "0"))
            continue
        fields.update(f_ for f_, _ in probes)
        tab.add((tuple(sorted(probes)), rr_))
    bc = [a_ for a_ in F.adts.values() if a_["path"] == "rscel::context::bind_context::BindContext"][0]
    fnames = [f_["name"] for f_ in bc["variants"][0]["fields"]]
    consulted = sorted(fnames[f_] if f_ < len(fnames) else str(f_) for f_ in fields)
    if consulted == ["funcs", "macros", "params"]:
        chk.ok("R17.4", "is_bound = params | funcs | macros", consulted)
    else:
        chk.bad("R17.4", "is_bound = params | funcs | macros", "is_bound consults %s (expected the variable, function and macro tables)" % consulted, ib.file)
    good = all(res in ("0", "1") and (res == "1") == any(v == 1 for _, v in pr) for pr, res in tab) and len(tab) >= 3
    if good:
        chk.ok("R17.4", "is_bound is the disjunction", sorted(tab))
    else:
        chk.bad("R17.4", "is_bound is the disjunction", "is_bound's decision table is %s" % sorted(tab), ib.file)
    nb = F.body("<rscel::utils::ident_filter::IdentFilterIter<'a> as std::iter::Iterator>::next")
    # decision table of next() over an underlying iterator of two names (symbolic execution): the first name that is not bound, else None
    import symex as _sx, semtables as _st
    ia = [a_ for a_ in F.adts.values() if a_["path"] == "rscel::utils::ident_filter::IdentFilterIter"][0]

    class FilterPolicy(_st.LogicPolicy):
        def limit_for(self, body, blk):
            return 8

        def stub(self, interp, st, path, c, args, t, caller):
            if path.endswith("::is_bound"):
                return [(st, ("call", "is_bound", (args[1],), "bool"))]
            return None
    st0 = _sx.State()
    c2 = st0.fresh()
    st0.heap[c2] = ("iter", "seq", ((_sx.U("n0"), _sx.U("n1")), 0))
    flds = tuple(("ptr", c2) if f_["name"] == "iter" else _sx.U(f_["name"]) for f_ in ia["variants"][0]["fields"])
    c1 = st0.fresh()
    st0.heap[c1] = _sx.adt(ia["path"], "IdentFilterIter", flds)
    got_f = set()
    try:
        for st_, r_ in _sx.Interp(F, FilterPolicy()).run(nb, [("ptr", c1)], state=st0):
            conds_ = tuple((str(c[1]), "T" if c[0] == "ne" else "F") for c in st_.cond if c[0] in ("eq", "ne") and "is_bound(" in str(c[1]))
            got_f.add((conds_, _sx.render(_sx.deep(st_, r_))))
    except Exception as e_:
        got_f.add(("could not be executed symbolically: %s" % str(e_)[:80],))
    want_f = {((("is_bound(n0)", "F"),), "Option::Some(n0)"), ((("is_bound(n0)", "T"), ("is_bound(n1)", "F")), "Option::Some(n1)"), ((("is_bound(n0)", "T"), ("is_bound(n1)", "T")), "Option::None")}
    okn = got_f == want_f
    if okn:
        chk.ok("R17.4", "IdentFilterIter yields exactly the unbound names")
    else:
        chk.bad("R17.4", "IdentFilterIter yields exactly the unbound names", "IdentFilterIter::next over the names (n0, n1) must yield the first name that is not bound, else None; found %s" % sorted(map(str, got_f)), nb.file)
    wb = [b for b in F.bodies.values() if b.pkg == "rscel_wasm" and b.path.endswith("cel_details")]
    if len(wb) == 1:
        ex = mirq.call_exprs(mirq.BodyQ(wb[0]), drop=None)
        if any(e.startswith("ProgramDetails::filter_from_bindings!(") or e.startswith("ProgramDetails::filter_from_bindings(") for e in ex) and any("BindContext::new()" in e for e in ex):
            chk.ok("R17.4", "wasm celDetails filters against the default bindings")
        else:
            chk.bad("R17.4", "wasm celDetails filters against the default bindings", str([e[:80] for e in ex]), wb[0].file)
    chk.analysed = {"builder_paths": npaths, "parse_functions": len(db["roots"])}
    return chk.finish(
        "Details-flow obligation checked on every builder path of every parse function (templates from symbolic execution of the compiler's MIR; ProgramDetails / HashSet "
        "operations are executed symbolically, so a dropped union, a re-wrapped node with empty details or a discarded sub-compiler result shows up as a missing source).",
        ["rustc MIR", "symex summaries", "induction hypothesis: children report their own identifiers"], ["default features"],
        technique="symbolic execution of the parser's MIR with symbolic ProgramDetails: per-path details-completeness (taint of each child's parameter set into the node)")
