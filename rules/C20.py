"""C20 CEL -> SQL - structural clauses on extensions/to_sql."""
import re
import lib, common, panic_edges

P = "rscel_to_sql::grammar::<impl rscel_to_sql::traits::IntoSqlBuilder for rscel::%s>::into_sql_builder"


def run(chk, tier):
    F = lib.get_facts()
    chk.rule("R20.1", "quoting: the body that emits a CEL string literal between single quotes passes the text through an escape (str::replace) first")
    chk.rule("R20.2", "argument-order agreement: every arm that collects call arguments from the AST (stored last to first by the parser) reverses them")
    chk.rule("R20.3", "translation cannot panic: no undischarged panic edge in rscel-to-sql (same census and table as C01)")
    chk.rule("R20.4", "every grammar node type has an IntoSqlBuilder impl")
    lit = F.body(P % "LiteralsAndKeywords", "rscel-to-sql")
    cal = common.callees_g(lit)
    esc = [c for c in cal if re.search(r"str::<impl str>::(replace|replacen)<", c)]
    if esc:
        chk.ok("R20.1", "StringLit escape", esc[0])
    else:
        chk.bad("R20.1", "StringLit escape", "LiteralsAndKeywords::into_sql_builder formats the string literal without escaping: a quote in the literal ends the SQL string", lit.file)
    mem = F.body(P % "Member", "rscel-to-sql")
    cal = common.callees_g(mem)
    rev = sum(n for c, n in cal.items() if re.search(r"slice::<impl \[T\]>::reverse<|Iterator::rev<", c))
    collectors = [c for c in F.closures_of(mem) if any(x.endswith("into_sql_builder") for x in common.callees_of(c))]
    if collectors and rev == len(collectors):
        chk.ok("R20.2", "Member call arms", {"argument collectors": len(collectors), "reversals": rev})
    else:
        chk.bad("R20.2", "Member call arms", "%d arm(s) collect call arguments but %d reverse them: stand-alone and chained calls emit arguments in different orders" % (len(collectors), rev), mem.file)
    chk.floor("R20.2", "call-argument collecting arms", len(collectors), 2)
    out, unc, nb, nc = panic_edges.census(F, ("rscel-to-sql",))
    import json, os
    table = panic_edges.load_table()
    for (bp, sig), sites in sorted(out.items()):
        if "_serde::Serialize for" in bp:
            continue
        row = table.get(bp + "|" + sig)
        if row and len(sites) <= row["count"] and row["status"] == "safe":
            chk.ok("R20.3", bp + "|" + sig, row["reason"])
        else:
            chk.bad("R20.3", bp + "|" + sig, "panic-capable construct in the translator: %s x%d" % (sig, len(sites)), "%s:%d" % (sites[0][1], sites[0][0]))
    for (bp, callee, line, f) in unc:
        chk.bad("R20.3", bp + "|" + lib.short(callee), "unclassified panic-like callee %s" % callee, "%s:%d" % (f, line))
    chk.analysed.update({"to_sql_bodies": nb, "call_sites": nc})
    impls = {re.search(r"for rscel::(\w+)>", b.path).group(1) for b in F.bodies.values() if b.pkg == "rscel-to-sql" and re.search(r"IntoSqlBuilder for rscel::\w+>::into_sql_builder$", b.path)}
    want = {"Expr", "ConditionalOr", "ConditionalAnd", "Relation", "Addition", "Multiplication", "Unary", "Member", "MemberPrime", "Primary", "Ident", "ExprList", "ObjInits", "LiteralsAndKeywords"}
    for w in sorted(want):
        if w in impls:
            chk.ok("R20.4", w)
        else:
            chk.bad("R20.4", w, "grammar node %s has no IntoSqlBuilder impl" % w, "")
    # ------------------------------------------------------------------ translation tables by symbolic execution
    import symex, semtables
    chk.rule("R20.5", "node -> builder tables: every binary node becomes (lhs, SQL token of the same operator, rhs); ternary (condition, true, false); unary (operator run, operand); "
                      "parentheses are kept; list elements stay in source order; member chains wrap the object built so far; type constructors become casts of their one argument")
    chk.rule("R20.6", "builder -> text: every format prints its operands in field order (left, operator, right / value, type / callee, arguments / object, field / array, index); collections in stored order")
    chk.rule("R20.7", "grouping: an operand that is followed by a tighter-binding postfix (`::type`, `[index]`, `(args)`) and not preceded by an opening delimiter goes through the guard that "
                      "parenthesises compound text, and every builder printing `operand operator operand` without a delimiter of its own declares itself compound")
    GR = "rscel::compiler::grammar::"
    TR = "rscel_to_sql::traits::"

    def variant_names(adt_name):
        a = F.adts.get(GR + adt_name)
        return [v["name"] for v in a["variants"]] if a else []

    def field_names(adt_path, variant):
        a = F.adts.get(adt_path)
        if not a:
            return []
        for v in a["variants"]:
            if v["name"] == variant:
                return [f["name"] for f in v["fields"]]
        return []

    class NodePolicy(semtables.LogicPolicy):
        max_paths = 6000

        def inline(self, path, body):
            # private helpers of the translator (e.g. a table moved into its own function) are part of the translation
            return semtables.LogicPolicy.inline(self, path, body) or (path.startswith("rscel_to_sql::") and str(body.d.get("vis", "")).startswith("Restricted")
                                                                      and not path.endswith(">::into_sql_builder") and not path.endswith("::to_sql"))

        def __init__(self, root):
            super().__init__()
            self.root = root

        def stub(self, interp, st, path, c, args, t, caller):
            if path.endswith("::into_sql_builder") and path != self.root:
                return [(st, ("call", "child", tuple(args), "R"))]
            return None

    def node_rows(name):
        b = F.body(P % name, "rscel-to-sql")
        it = symex.Interp(F, NodePolicy(b.path))
        rows = []
        for st, r in it.run(b, [symex.U("n", b.local_ty(1))]):
            rr = symex.render(symex.deep(st, r))
            if rr.startswith("Result::Err("):
                continue
            rows.append((st, rr))
        return b, rows

    def sel(st, place):
        for c in st.cond:
            if c[0] == "variant" and c[3] == place:
                return c[2]
        return None

    def fld(expr, adt_name, variant):
        """child(n.<variant>.<k>...) -> field name k of that variant"""
        m_ = re.match(r"^child\(n\.%s\.(\d+)(?:\.0)*\)\.Ok\.0$" % variant, expr)
        if not m_:
            return None
        names = field_names(GR + adt_name, variant)
        k = int(m_.group(1))
        return names[k] if k < len(names) else None
    SQLTOK = {"Le": "<=", "Lt": "<", "Ge": ">=", "Gt": ">", "Eq": "=", "Ne": "<>", "In": "in", "Add": "+", "Sub": "-", "Mult": "*", "Div": "/", "Mod": "%"}
    BIN = {"ConditionalOr": (None, "OR"), "ConditionalAnd": (None, "AND"), "Relation": ("Relop", None), "Addition": ("AddOp", None), "Multiplication": ("MultOp", None)}
    BINRX = re.compile(r"^Result::Ok\(BinaryOperationBuilder::BinaryOperationBuilder\((.+?), StaticSqlBuilder::boxed\('([^']*)'\), (.+?)\)\)$")
    nrows = 0
    for node, (opadt, fixed) in BIN.items():
        b, rows = node_rows(node)
        nrows += len(rows)
        vnames = variant_names(node)
        seen_ops = set()
        for st, rr in rows:
            v = sel(st, "n")
            vname = vnames[v] if isinstance(v, int) and v < len(vnames) else v
            if vname == "Unary":
                if re.match(r"^child\(n\.Unary\.0(\.0)*\)$", rr):
                    chk.ok("R20.5", "%s|Unary" % node)
                else:
                    chk.bad("R20.5", "%s|Unary" % node, "a %s without an operator must translate as its only operand; found %s" % (node, rr[:100]), b.file)
                continue
            m_ = BINRX.match(rr)
            if not m_:
                chk.bad("R20.5", "%s|%s" % (node, vname), "unexpected translation %s" % rr[:120], b.file)
                continue
            l_, tok, r_ = m_.groups()
            if opadt:
                oi = [c[2] for c in st.cond if c[0] == "variant" and re.match(r"^n\.Binary\.\d+(\.0)*$", str(c[3]))]
                onames = variant_names(opadt)
                oname = onames[oi[0]] if oi and isinstance(oi[0], int) and oi[0] < len(onames) else (oi[0] if oi else "?")
                want = SQLTOK.get(oname)
            else:
                oname, want = node, fixed
            seen_ops.add(oname)
            key = "%s|%s" % (node, oname)
            probs = []
            if fld(l_, node, "Binary") != "lhs" or fld(r_, node, "Binary") != "rhs":
                probs.append("operands (%s, %s) instead of (lhs, rhs)" % (fld(l_, node, "Binary") or l_[:40], fld(r_, node, "Binary") or r_[:40]))
            if tok != want:
                probs.append("operator %s is written as SQL `%s`, expected `%s`" % (oname, tok, want))
            if probs:
                chk.bad("R20.5", key, "; ".join(probs), b.file)
            else:
                chk.ok("R20.5", key, "(lhs) %s (rhs)" % tok)
        for o in (variant_names(opadt) if opadt else [node]):
            if o not in seen_ops:
                chk.bad("R20.5", "%s|%s" % (node, o), "operator %s has no translation row" % o, b.file)
    # ternary / match
    b, rows = node_rows("Expr")
    nrows += len(rows)
    vn = variant_names("Expr")
    for st, rr in rows:
        v = sel(st, "n")
        vname = vn[v] if isinstance(v, int) and v < len(vn) else v
        if vname == "Ternary":
            m_ = re.match(r"^Result::Ok\(TurnaryExpressionBuilder::TurnaryExpressionBuilder\((.+?), (.+?), (.+?)\)\)$", rr)
            got = tuple(fld(x, "Expr", "Ternary") for x in m_.groups()) if m_ else None
            want = tuple(field_names(TR + "TurnaryExpressionBuilder", "TurnaryExpressionBuilder"))
            if got == ("condition", "true_clause", "false_clause") == want:
                chk.ok("R20.5", "Expr|Ternary", got)
            else:
                chk.bad("R20.5", "Expr|Ternary", "the ternary's (condition, true, false) are translated into the builder's %s as %s" % (want, got or rr[:100]), b.file)
        elif vname == "Match":
            if "UnsupportedBuilder" in rr:
                chk.ok("R20.5", "Expr|Match", "unsupported")
            else:
                chk.bad("R20.5", "Expr|Match", "match has no SQL translation and must be reported as unsupported: %s" % rr[:100], b.file)
        elif vname == "Unary":
            if re.match(r"^child\(n\.Unary\.0(\.0)*\)$", rr):
                chk.ok("R20.5", "Expr|Unary")
            else:
                chk.bad("R20.5", "Expr|Unary", rr[:100], b.file)
    # unary operators
    b, rows = node_rows("Unary")
    nrows += len(rows)
    vn = variant_names("Unary")
    for st, rr in rows:
        v = sel(st, "n")
        vname = vn[v] if isinstance(v, int) and v < len(vn) else v
        if vname == "Member":
            ok_ = bool(re.match(r"^child\(n\.Member\.0(\.0)*\)$", rr))
            want_ = "its member"
        else:
            m_ = re.match(r"^Result::Ok\(UnaryOperationBuilder::UnaryOperationBuilder\((.+?), (.+?)\)\)$", rr)
            got = tuple(fld(x, "Unary", vname) for x in m_.groups()) if m_ else None
            opf = {"NotMember": "nots", "NegMember": "negs"}.get(vname)
            ok_ = got == (opf, "member") and field_names(TR + "UnaryOperationBuilder", "UnaryOperationBuilder") == ["operator", "operand"]
            want_ = "(operator = %s, operand = member)" % opf
        if ok_:
            chk.ok("R20.5", "Unary|%s" % vname)
        else:
            chk.bad("R20.5", "Unary|%s" % vname, "expected %s, found %s" % (want_, rr[:120]), b.file)
    for node, ch in (("NotList", "!"), ("NegList", "-")):
        b, rows = node_rows(node)
        nrows += len(rows)
        vn = variant_names(node)
        for st, rr in rows:
            v = sel(st, "n")
            vname = vn[v] if isinstance(v, int) and v < len(vn) else v
            if vname == "List":
                ok_ = bool(re.match(r"^Result::Ok\(LiteralBuilder::LiteralBuilder\(must_use\(format\(Arguments::new_v1\(\['%s'\], \[Argument::new_display\(SqlBuilder::to_sql\(child\(n\.List\.0(\.0)*\)\.Ok\.0\)\.Ok\.0\)\]\)\)\)\)\)$" % re.escape(ch), rr))
            else:
                ok_ = rr in ("Result::Ok(LiteralBuilder::LiteralBuilder([]))", "Result::Ok(LiteralBuilder::LiteralBuilder(''))") or bool(re.match(r"^Result::Ok\(LiteralBuilder::LiteralBuilder\((String::new\(\)|\[\]|'')\)\)$", rr))
            if ok_:
                chk.ok("R20.5", "%s|%s" % (node, vname))
            else:
                chk.bad("R20.5", "%s|%s" % (node, vname), "a run of `%s` must translate to one `%s` per operator followed by the rest of the run: %s" % (ch, ch, rr[:160]), b.file)
    # primary: parentheses kept, list elements in order
    b, rows = node_rows("Primary")
    nrows += len(rows)
    vn = variant_names("Primary")
    seen_p = set()
    for st, rr in rows:
        v = sel(st, "n")
        vname = vn[v] if isinstance(v, int) and v < len(vn) else v
        seen_p.add(vname)
        if vname == "Parens":
            ok_ = bool(re.match(r"^Result::Ok\(ParensBuilder::ParensBuilder\(child\(n\.Parens\.0(\.0)*\)\.Ok\.0\)\)$", rr))
            why_ = "explicit parentheses must be kept around their expression"
        elif vname == "ListConstruction":
            ok_ = bool(re.match(r"^Result::Ok\(ArrayBuilder::ArrayBuilder\(\[\*map\(AstNode::node\(n\.ListConstruction\.0\)\.0\)\]\.Ok\.0\)\)$", rr))
            why_ = "list elements must be translated in stored (source) order, one builder per element"
        elif vname in ("Ident", "Literal"):
            ok_ = bool(re.match(r"^child\(n\.%s\.0(\.0)*\)$" % vname, rr))
            why_ = "passes through"
        elif vname == "ObjectInit":
            ok_ = bool(re.match(r"^child\(AstNode::node\(n\.ObjectInit\.0\)\)$", rr)) or bool(re.match(r"^child\(n\.ObjectInit\.0(\.0)*\)$", rr))
            why_ = "passes through"
        else:
            ok_ = "UnsupportedBuilder" in rr
            why_ = "constructs without a translation are reported as unsupported"
        if ok_:
            chk.ok("R20.5", "Primary|%s" % vname)
        else:
            chk.bad("R20.5", "Primary|%s" % vname, "%s: %s" % (why_, rr[:160]), b.file)
    for need in ("Parens", "ListConstruction", "Ident", "Literal"):
        if need not in seen_p:
            chk.bad("R20.5", "Primary|%s" % need, "no translation row for Primary::%s" % need, b.file)
    # member chains and casts
    b, rows = node_rows("Member")
    nrows += len(rows)
    mp = variant_names("MemberPrime")
    CASTS = {"int": "integer", "uint": "bigint", "float": "double precision", "double": "double precision", "string": "text", "bool": "boolean",
             "bytes": "bytea", "timestamp": "timestamp", "duration": "interval"}
    ARGS = r"\[\*rev\(\[\*map\(AstNode::node\(AstNode::node\((?:\*n\.1|Index::index\(n\.1, 0\)|n\.1\.\[c0\])\)\.Call\.0\)\.0\)\]\.Ok\.0\)\]"
    seen_cast = {}
    seen_m = set()
    for st, rr in rows:
        matched = [re.search(r", '(\w+)'\)$", c[1]).group(1) for c in st.cond if c[0] == "ne" and isinstance(c[1], str) and re.match(r"^PartialEq for str::eq\(AstNode::node\(n\.0\)\.Ident\.0\.0, '\w+'\)$", c[1])]
        m_ = re.match(r"^Result::Ok\(CastBuilder::CastBuilder\((.+), StaticSqlBuilder::boxed\('([^']*)'\)\)\)$", rr)
        if m_:
            val, ty = m_.groups()
            nm = matched[0] if matched else "?"
            ok_val = val == "StaticSqlBuilder::boxed('NULL')" or bool(re.match(r"^Vec::remove\(%s, 0\)$" % ARGS, val))
            if not ok_val:
                chk.bad("R20.5", "cast|%s|value" % nm, "the cast's value must be the constructor's single argument: %s" % val[:120], b.file)
            seen_cast.setdefault(nm, set()).add(ty)
            continue
        if re.match(r"^Result::Ok\(FunctionCallBuilder::FunctionCallBuilder\(child\(n\.0\)\.Ok\.0, %s\)\)$" % ARGS, rr):
            seen_m.add("Call")
        elif re.match(r"^Result::Ok\(JsonMemberAccessBuilder::JsonMemberAccessBuilder\(child\(n\.0\)\.Ok\.0, child\(AstNode::node\(AstNode::node\(\*n\.1\)\.MemberAccess\.0\)\)\.Ok\.0, Eq\(0, Sub\(Vec::len\(n\.1\), 1\)\)\)\)$", rr):
            seen_m.add("MemberAccess")
        elif re.match(r"^Result::Ok\(ArrayAccessBuilder::ArrayAccessBuilder\(child\(n\.0\)\.Ok\.0, child\(AstNode::node\(AstNode::node\(\*n\.1\)\.ArrayAccess\.0\)\)\.Ok\.0\)\)$", rr):
            seen_m.add("ArrayAccess")
        elif rr == "Result::Ok(child(n.0).Ok.0)":
            seen_m.add("Empty")
        else:
            chk.bad("R20.5", "Member|unexpected", "unexpected member translation (object / callee must be the builder made so far, arguments reversed back to source order): %s" % rr[:200], b.file)
    for k_ in ("Call", "MemberAccess", "ArrayAccess", "Empty"):
        if k_ in seen_m:
            chk.ok("R20.5", "Member|%s" % k_)
        else:
            chk.bad("R20.5", "Member|%s" % k_, "no translation row of the expected shape for member kind %s" % k_, b.file)
    for nm, want in CASTS.items():
        if seen_cast.get(nm) == {want}:
            chk.ok("R20.5", "cast|%s" % nm, want)
        else:
            chk.bad("R20.5", "cast|%s" % nm, "type constructor %s(...) must become a cast to `%s`; found %s" % (nm, want, sorted(seen_cast.get(nm, []))), b.file)
    for nm in set(seen_cast) - set(CASTS):
        chk.bad("R20.5", "cast|%s" % nm, "unexpected cast row %s -> %s" % (nm, sorted(seen_cast[nm])), b.file)
    chk.floor("R20.5", "translation rows extracted", nrows, 60)

    # ---------------- builder -> text
    class TextPolicy(semtables.LogicPolicy):
        max_paths = 3000

        def __init__(self, root):
            super().__init__()
            self.root = root

        def stub(self, interp, st, path, c, args, t, caller):
            if path.endswith("::to_sql") and path != self.root:
                return [(st, ("call", "sql", tuple(args), "R"))]
            return None
    builders = sorted((b_ for b_ in F.bodies.values() if b_.pkg == "rscel-to-sql" and re.search(r"<rscel_to_sql::traits::(\w+) as rscel_to_sql::traits::SqlBuilder>::to_sql$", b_.path)), key=lambda b_: b_.path)
    FMT = re.compile(r"^Result::Ok\(must_use\(format\(Arguments::new_v1\(\[(.*?)\], \[(.*)\]\)\)\)\)$")
    OPEN, CLOSE = "([", ")]"
    POSTFIX = ("::", "[", "(")
    guards = set()
    n_slots = 0
    texts = {}
    slot_shapes, slot_info = {}, {}

    def display_args(txt):
        """top-level `Argument::new_display(...)` items of a format's argument array"""
        out_, i_ = [], 0
        tag = "Argument::new_display("
        while True:
            j_ = txt.find(tag, i_)
            if j_ < 0:
                break
            k_, depth_ = j_ + len(tag), 1
            while k_ < len(txt) and depth_:
                depth_ += 1 if txt[k_] == "(" else -1 if txt[k_] == ")" else 0
                k_ += 1
            out_.append(txt[j_ + len(tag):k_ - 1])
            i_ = k_
        return out_
    for b_ in builders:
        bname = re.search(r"traits::(\w+) as", b_.path).group(1)
        fields = field_names(TR + bname, bname)
        it = symex.Interp(F, TextPolicy(b_.path))
        for st, r in it.run(b_, [symex.U("s", b_.local_ty(1))]):
            rr = symex.render(symex.deep(st, r))
            if rr.startswith("Result::Err(") and "Unsupported" not in rr:
                continue
            m_ = FMT.match(rr)
            if not m_:
                texts.setdefault(bname, []).append((None, rr))
                continue
            pieces = [x[1:-1] for x in re.findall(r"'(?:[^'\\]|\\.)*'|\"(?:[^\"\\]|\\.)*\"", m_.group(1))]
            args = display_args(m_.group(2))
            order = []
            for k_, a_ in enumerate(args):
                fm = re.search(r"s\.0\.0\.(\d+)", a_)
                if not fm and not re.search(r"\bsql\(|\bs\b", a_):
                    continue          # a piece of fixed text chosen by the builder itself (e.g. `->` or `->>`), not an operand
                fname = fields[int(fm.group(1))] if fm and int(fm.group(1)) < len(fields) else "?"
                order.append(fname)
                n_slots += 1
                before = pieces[k_] if k_ < len(pieces) else ""
                after = pieces[k_ + 1] if k_ + 1 < len(pieces) else ""
                helper = re.match(r"^(\w+)\(s\.0\.0\.\d+\)\.Ok\.0$", a_)
                guarded = bool(helper) and helper.group(1) != "sql"
                if guarded:
                    guards.add(helper.group(1))
                if after.startswith(POSTFIX):
                    key = "%s.%s" % (bname, fname)
                    # the guard may be a helper (checked below) or written in place: under is_compound(operand) the text is "(" operand ")", otherwise the operand
                    fk = fm.group(1) if fm else "?"
                    pred = [("T" if c[0] == "ne" else "F") for c in st.cond if c[0] in ("eq", "ne") and re.search(r"is_compound\(s\.0\.0\.%s(\.0)*\)" % fk, str(c[1]))]
                    if re.match(r"^must_use\(format\(Arguments::new_v1\(\['\(', '\)'\], \[Argument::new_display\(sql\(s\.0\.0\.%s\)\.Ok\.0\)\]\)\)\)$" % fk, a_):
                        shape = "wrapped"
                    elif re.match(r"^sql\(s\.0\.0\.%s\)\.Ok\.0$" % fk, a_):
                        shape = "plain"
                    else:
                        shape = "helper" if guarded else "other"
                    slot_shapes.setdefault(key, set()).add((tuple(pred), shape))
                    slot_info[key] = (bname, fname, after[:2], helper.group(1) if guarded else None, b_.file)
            texts.setdefault(bname, []).append((pieces, order))
            want_order = [f for f in fields if f in order]
            if order == want_order and "?" not in order:
                chk.ok("R20.6", "%s|%s" % (bname, "/".join(pieces)[:40]), order)
            else:
                chk.bad("R20.6", "%s|operand order" % bname, "%s prints its operands in the order %s; its fields are %s" % (bname, order, fields), b_.file)
            for a_ in args:
                if re.search(r"\brev\(", a_):
                    chk.bad("R20.6", "%s|collection order" % bname, "%s reverses a collection while printing it" % bname, b_.file)
    for key, shapes_ in sorted(slot_shapes.items()):
        bname, fname, post_, helper_, file_ = slot_info[key]
        if shapes_ == {((), "helper")}:
            chk.ok("R20.7", key, "postfix `%s` - operand passes through %s" % (post_, helper_))
        elif shapes_ == {(("T",), "wrapped"), (("F",), "plain")}:
            chk.ok("R20.7", key, "postfix `%s` - compound operands are parenthesised in place" % post_)
        else:
            chk.bad("R20.7", key, "%s prints `%s` directly before `%s` with no delimiter: when the operand is `(a) + (b)` or `(x)->>'f'` the postfix binds to its last operand only "
                                  "(e.g. int(x + y) becomes (x) + (y)::integer)   [%s]" % (bname, fname, post_, sorted(shapes_)), file_)
    chk.floor("R20.6", "operand slots printed by the builders", n_slots, 18)
    # guard helpers have the shape: compound -> "(" text ")" ; else text
    for g in sorted(guards):
        gb = [b_ for b_ in F.bodies.values() if b_.pkg == "rscel-to-sql" and b_.path.endswith("::" + g)]
        if len(gb) != 1:
            chk.bad("R20.7", "guard|%s" % g, "guard helper %s not found" % g, "")
            continue
        it = symex.Interp(F, TextPolicy(gb[0].path))
        shapes = set()
        for st, r in it.run(gb[0], [symex.U("b", gb[0].local_ty(1))]):
            rr = symex.render(symex.deep(st, r))
            if rr.startswith("Result::Err("):
                continue
            pred = [("T" if c[0] == "ne" else "F") for c in st.cond if c[0] in ("eq", "ne") and re.search(r"is_compound\(b(\.0)*\)", str(c[1]))]
            shapes.add((tuple(pred), rr))
        want_shapes = {(("T",), "Result::Ok(must_use(format(Arguments::new_v1(['(', ')'], [Argument::new_display(sql(b).Ok.0)]))))"), (("F",), "sql(b)")}
        if shapes == want_shapes:
            chk.ok("R20.7", "guard|%s" % g, "compound -> (text), otherwise text")
        else:
            chk.bad("R20.7", "guard|%s" % g, "the guard must parenthesise exactly the compound operands: %s" % sorted(shapes)[:3], gb[0].file)
    # which builders print `operand operator operand` at nesting depth 0
    def open_infix(pieces):
        depth = 0
        for k_, pc in enumerate(pieces):
            for ch in pc:
                if ch in OPEN:
                    depth += 1
                elif ch in CLOSE:
                    depth -= 1
            if 0 < k_ + 1 < len(pieces) and depth == 0 and pieces[0][:1] in tuple(OPEN):
                return True      # begins with a delimited operand, and text continues outside every delimiter
        return False
    for bname, forms in sorted(texts.items()):
        comp_bodies = [b_ for b_ in F.bodies.values() if b_.pkg == "rscel-to-sql" and b_.path.endswith("<rscel_to_sql::traits::%s as rscel_to_sql::traits::SqlBuilder>::is_compound" % bname)]
        declared = None
        if comp_bodies:
            it = symex.Interp(F, semtables.LogicPolicy())
            vals = set(symex.render(r) for _, r in it.run(comp_bodies[0], [symex.U("s", comp_bodies[0].local_ty(1))]))
            declared = vals == {"1"}
        needs = any(pc is not None and open_infix(pc) for pc, _ in forms)
        if needs and not declared:
            if guards or any(sh_ == {(("T",), "wrapped"), (("F",), "plain")} for sh_ in slot_shapes.values()):
                chk.bad("R20.7", "compound|%s" % bname, "%s prints `(operand) operator ...` with no delimiter of its own but does not declare itself compound: a postfix after it regroups" % bname, "extensions/to_sql/src/traits.rs")
            # without any guard the slot violations above already describe the defect
        elif needs:
            chk.ok("R20.7", "compound|%s" % bname)
        elif declared:
            chk.ok("R20.7", "compound|%s" % bname, "declared compound (conservative)")
    chk.floor("R20.7", "builders analysed", len(texts), 14)
    return chk.finish(
        "Must-call rule for literal escaping, sibling agreement of the two call-argument arms, panic census of the translator, impl coverage. "
        "Translation tables (node -> builder, builder -> text) extracted by symbolic execution and compared with the operator / operand / grouping rules. Does not re-parse SQL.",
        ["rustc MIR + resolved callees", "PostgreSQL standard_conforming_strings quoting (doubling ')"], ["default features"],
        technique="symbolic-execution translation tables (node -> builder -> text) + must-call / sibling rules over resolved MIR callees")
