"""C20 CEL -> SQL - structural clauses on extensions/to_sql."""
import re
import lib, common, panic_edges

P = "rscel_to_sql::grammar::<impl rscel_to_sql::traits::IntoSqlBuilder for rscel::%s>::into_sql_builder"


def run(chk, tier):
    F = lib.get_facts()
    chk.rule("R20.1", "quoting: the body that emits a CEL string literal between single quotes passes the text through an escape (str::replace) first")
    chk.rule("R20.2", "argument-order agreement: every arm that collects call arguments from the AST (stored last to first by the parser) reverses them")
    chk.rule("R20.3", "translation cannot panic: no undischarged panic edge in rscel-to-sql (same census and table as C01)")
    chk.rule("R20.4", "every grammar node type has an IntoSqlBuilder impl")
    lit = F.body(P % "LiteralsAndKeywords", "rscel-to-sql")
    cal = common.callees_g(lit)
    esc = [c for c in cal if re.search(r"str::<impl str>::(replace|replacen)<", c)]
    if esc:
        chk.ok("R20.1", "StringLit escape", esc[0])
    else:
        chk.bad("R20.1", "StringLit escape", "LiteralsAndKeywords::into_sql_builder formats the string literal without escaping: a quote in the literal ends the SQL string", lit.file)
    mem = F.body(P % "Member", "rscel-to-sql")
    cal = common.callees_g(mem)
    rev = sum(n for c, n in cal.items() if re.search(r"slice::<impl \[T\]>::reverse<|Iterator::rev<", c))
    collectors = [c for c in F.closures_of(mem) if any(x.endswith("into_sql_builder") for x in common.callees_of(c))]
    if collectors and rev == len(collectors):
        chk.ok("R20.2", "Member call arms", {"argument collectors": len(collectors), "reversals": rev})
    else:
        chk.bad("R20.2", "Member call arms", "%d arm(s) collect call arguments but %d reverse them: stand-alone and chained calls emit arguments in different orders" % (len(collectors), rev), mem.file)
    chk.floor("R20.2", "call-argument collecting arms", len(collectors), 2)
    out, unc, nb, nc = panic_edges.census(F, ("rscel-to-sql",))
    import json, os
    table = json.load(open(os.path.join(lib.VERIF, "tables", "panic_sites.json")))["rows"]
    for (bp, sig), sites in sorted(out.items()):
        if "_serde::Serialize for" in bp:
            continue
        row = table.get(bp + "|" + sig)
        if row and len(sites) <= row["count"] and row["status"] == "safe":
            chk.ok("R20.3", bp + "|" + sig, row["reason"])
        else:
            chk.bad("R20.3", bp + "|" + sig, "panic-capable construct in the translator: %s x%d" % (sig, len(sites)), "%s:%d" % (sites[0][1], sites[0][0]))
    for (bp, callee, line, f) in unc:
        chk.bad("R20.3", bp + "|" + lib.short(callee), "unclassified panic-like callee %s" % callee, "%s:%d" % (f, line))
    chk.analysed.update({"to_sql_bodies": nb, "call_sites": nc})
    impls = {re.search(r"for rscel::(\w+)>", b.path).group(1) for b in F.bodies.values() if b.pkg == "rscel-to-sql" and re.search(r"IntoSqlBuilder for rscel::\w+>::into_sql_builder$", b.path)}
    want = {"Expr", "ConditionalOr", "ConditionalAnd", "Relation", "Addition", "Multiplication", "Unary", "Member", "MemberPrime", "Primary", "Ident", "ExprList", "ObjInits", "LiteralsAndKeywords"}
    for w in sorted(want):
        if w in impls:
            chk.ok("R20.4", w)
        else:
            chk.bad("R20.4", w, "grammar node %s has no IntoSqlBuilder impl" % w, "")
    return chk.finish(
        "Must-call rule for literal escaping, sibling agreement of the two call-argument arms, panic census of the translator, impl coverage. "
        "Decides those clauses only; does not re-parse SQL or compare operator trees.",
        ["rustc MIR + resolved callees", "PostgreSQL standard_conforming_strings quoting (doubling ')"], ["default features"],
        technique="must-call + sibling-count rules over resolved MIR callees")
