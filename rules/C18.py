"""C18 syntax-tree spans are exact and nested; syntax errors point inside the source - structural disciplines.

  R18.1 span arithmetic: SourceRange::surrounding(a, b) = new(min(a.start, b.start), max(a.end, b.end)) where the order on
        SourceLocation is the derived lexicographic (line, column) order
  R18.2 span composition: on every builder path of every parse function the node's span is composed from the spans of sub-trees
        and of tokens THE FUNCTION ITSELF CONSUMED, and it includes the first and the last thing consumed (so the node covers its
        children and delimiters and nothing outside); an unconsumed look-ahead token never enters a span
  R18.3 look-ahead typestate: Tokenizer::location() is the scanner position, which lies AFTER a buffered look-ahead token; a
        location() that flows into a syntax-tree span must be read while no token is buffered
  R18.4 scanner position: StringScanner::next advances (line, column) only when it returns a character: +1 column, or +1 line and
        column 0 on a newline; at end of input the position does not move (error locations stay inside the source)
  R18.5 token spans: a token's span is (scanner position before its first character, position after its last), re-read after
        every skipped whitespace character
Match-pattern nodes are exempt (the property excludes them).
Not decided: exactness on every layout; re-compiling the spanned text."""
import re, json
import lib, mirq, symex, semtables, tplrules

SR = "rscel::compiler::source_range::SourceRange"
SL = "rscel::compiler::source_location::SourceLocation"
EXEMPT_ROOTS = {"parse_match_pattern"}


def leaves(a, out):
    if isinstance(a, dict):
        if "u" in a:
            out.append(a["u"])
        for k in ("fields", "tup", "seq", "args"):
            for x in a.get(k) or []:
                leaves(x, out)
        for k in ("box", "pj"):
            if k in a:
                leaves(a[k], out)
    return out


def things_of(p):
    """trace of a path as a list of ('parse', k) / ('next', n) / ('peek', n) / ('location', n) with the look-ahead state before each"""
    ev = []
    for kind, idx, what in p["trace"]:
        if kind == "parse":
            if len(p["trace"][0]) > 3 and False:
                pass
            ev.append(("parse", idx, what))
        elif kind == "tok":
            ev.append((what, idx, None))
    return ev


def peek_is_some(p, n):
    for c in p["cond"]:
        if c[0] == "variant" and c[1] == "Option" and ("peek#%d" % n) in str(c[3]) and "as_token" not in str(c[3]):
            return c[2] == "Some"
        if c[0] == "variant" and c[1] == "Option" and str(c[3]) in ("Option::as_token(peek#%d)" % n,):
            return c[2] == "Some"
    return None


def run(chk, tier):
    F = lib.get_facts()
    chk.rule("R18.1", "surrounding = (min of starts, max of ends) under the derived lexicographic (line, column) order")
    chk.rule("R18.2", "a node's span is built from sub-tree spans and consumed tokens and includes the first and the last thing the function consumed")
    chk.rule("R18.3", "location() flows into a span only when no look-ahead token is buffered")
    chk.rule("R18.4", "the scanner position advances only with a returned character (+1 column / newline: +1 line, column 0)")
    chk.rule("R18.5", "token span = (position before the first character, position after the last), start re-read after skipped whitespace")

    # ---------------- R18.1
    sb = F.body(SR + "::surrounding")
    ex = mirq.call_exprs(mirq.BodyQ(sb), drop=None)
    want = ["Ord::min(p1.0, p2.0)", "Ord::max(p1.1, p2.1)", "SourceRange::new(Ord::min(p1.0, p2.0), Ord::max(p1.1, p2.1))"]
    if sorted(ex) == sorted(want):
        chk.ok("R18.1", "surrounding", want[2])
    else:
        chk.bad("R18.1", "surrounding", "SourceRange::surrounding must be new(min(self.start, other.start), max(self.end, other.end)) on whole locations (a per-component min/max yields spans outside the text on multi-line sources): %s" % ex, sb.file)
    nb = F.body(SR + "::new")
    qn = mirq.BodyQ(nb)
    ag = [s for (_, a_, v_, s) in qn.aggregates(adt_suffix="source_range::SourceRange")]
    if len(ag) == 1 and [mirq.expr_of(qn, o) for o in ag[0]["rv"]["ops"]] == ["p1", "p2"]:
        chk.ok("R18.1", "SourceRange::new(start, end)")
    else:
        chk.bad("R18.1", "SourceRange::new(start, end)", "SourceRange::new must store (start, end) in that order", nb.file)
    ords = [im for im in F.impls if im.get("self") == SL and im.get("trait", "").endswith("cmp::Ord")]
    derived = [im for im in ords if any("automaticallyderived" in a.lower().replace("_", "") for a in im.get("attrs", []))]
    lb = F.body(SL + "::new")
    ql = mirq.BodyQ(lb)
    ag = [s for (_, a_, v_, s) in ql.aggregates(adt_suffix="source_location::SourceLocation")]
    line_first = len(ag) == 1 and [mirq.expr_of(ql, o) for o in ag[0]["rv"]["ops"]] == ["p1", "p2"]
    if derived and line_first:
        chk.ok("R18.1", "SourceLocation order", "derived Ord over (line, column)")
    else:
        chk.bad("R18.1", "SourceLocation order", "SourceLocation must order lexicographically by (line, column): derived Ord=%s, new(line, col) stores line first=%s" % (bool(derived), line_first), lb.file)

    # ---------------- R18.2 / R18.3 on the templates
    db = tplrules.load(F)
    for m, e in db["errors"].items():
        chk.bad("R18.2", "extract|" + m, "template extraction failed: " + e[:200], "rscel/src/compiler/compiler.rs")
    nspans = 0
    reported = set()
    for m, paths in sorted(db["roots"].items()):
        if m in EXEMPT_ROOTS:
            continue
        for p in paths:
            a = p.get("ast")
            if not (isinstance(a, dict) and a.get("adt") == "AstNode" and a.get("fields")):
                continue
            rng = a["fields"][0]
            # an EMPTY span placed at the start of the look-ahead token (new(start(tok), start(tok))) is the current parse position
            if isinstance(rng, dict) and rng.get("call") == "SourceRange::new" and len(rng.get("args", [])) == 2 and rng["args"][0] == rng["args"][1] \
                    and isinstance(rng["args"][0], dict) and rng["args"][0].get("call") == "SourceRange::start":
                nspans += 1
                continue
            lv = leaves(rng, [])
            ev = things_of(p)
            # look-ahead state before each event, and which `next` consumes which peeked token
            state = "entry"
            st_before = []
            consumed_by = {}
            last_peek = None
            for i, (k, idx, what) in enumerate(ev):
                st_before.append(state)
                if k == "peek":
                    if state != "P":
                        last_peek = idx
                    some = peek_is_some(p, idx)
                    state = "C" if some is False else "P"
                elif k == "next":
                    if state == "P" and last_peek is not None:
                        consumed_by[last_peek] = idx
                    state = "C"
                    last_peek = None
                elif k == "parse":
                    state = "after-sub-parse"
                    last_peek = None
            pos = {}
            for i, (k, idx, what) in enumerate(ev):
                pos[(k if k != "parse" else "parse", idx)] = i
            foreign = set(k for k, c, recv in p.get("parse_recv", []) if recv != "self")
            consumed = [(k, idx) for (k, idx, what) in ev if (k == "next") or (k == "parse" and idx not in foreign)]
            nspans += 1
            shape = re.sub(r"\d+", "N", json.dumps(rng))[:90]
            bad = None
            things = set()
            for l in lv:
                mm = re.match(r"^ast:(\d+)\.0$", l)
                if mm:
                    things.add(("parse", int(mm.group(1))))
                    continue
                mm = re.match(r"^(next|peek|location)#(\d+)", l)
                if mm:
                    k, n = mm.group(1), int(mm.group(2))
                    if k == "peek":
                        if n in consumed_by:
                            things.add(("next", consumed_by[n]))
                        else:
                            # all peeks of the same buffered token are the same token
                            later = [c for pk, c in consumed_by.items() if pk <= n]
                            nxt = [idx for (kk, idx, w) in ev if kk == "next" and pos[("next", idx)] > pos[("peek", n)]]
                            between = [1 for (kk, idx, w) in ev if kk in ("next", "parse") and pos.get((kk, idx), -1) > pos[("peek", n)] and (not nxt or pos[(kk, idx)] < pos[("next", nxt[0])])]
                            if nxt and not between:
                                things.add(("next", nxt[0]))
                            else:
                                bad = "the span uses the location of look-ahead token peek#%d which this function never consumes" % n
                    elif k == "next":
                        things.add(("next", n))
                    else:
                        stt = st_before[pos[("location", n)]]
                        if stt == "P":
                            key = "%s|location() while a token is buffered" % m
                            if key not in reported:
                                reported.add(key)
                                chk.bad("R18.3", key, "%s builds a span from tokenizer.location() read after a successful peek(): the scanner position is then AFTER the buffered token, so the node's span overlaps / follows its right neighbour (e.g. the empty prefix list of `!x` spans past `!`)   [span: %s]" % (m, json.dumps(rng)[:160]), "rscel/src/compiler/compiler.rs (%s)" % m)
                        things.add(("location", n))
                    continue
                if l.startswith("ast:") or l.startswith("self"):
                    continue
                bad = bad or "the span contains %s, which is neither a sub-tree span nor a token this function read" % l
            if bad:
                key = "%s|%s|%s" % (m, shape, bad[:60])
                if key not in reported:
                    reported.add(key)
                    chk.bad("R18.2", key, "%s: %s   [span: %s]" % (m, bad, json.dumps(rng)[:200]), "rscel/src/compiler/compiler.rs (%s)" % m)
                continue
            if consumed:
                first, last = consumed[0], consumed[-1]
                # a node handed in as a parameter was consumed before this function started
                miss = [t for t in (first, last) if t not in things]
                if miss and not (len(things) == 1 and ("location", 0) in things):
                    key = "%s|%s|does not reach %s" % (m, shape, ",".join("%s%d" % t for t in miss))
                    if key not in reported:
                        reported.add(key)
                        names = {("parse", k): "sub-expression %d (%s)" % (k, c) for k, c in p["parses"]}
                        chk.bad("R18.2", key, "%s: the node's span does not include %s, the %s thing it consumed: a child or delimiter lies outside its parent's span   [span: %s; consumed in order: %s]" % (
                            m, [names.get(t, "token next#%d" % t[1]) for t in miss], "first / last", json.dumps(rng)[:160], consumed[:8]), "rscel/src/compiler/compiler.rs (%s)" % m)
                    continue
    if not [k for k in reported]:
        pass
    chk.ok("R18.2", "paths examined", nspans)
    chk.floor("R18.2", "spans examined", nspans, 1000)
    # ---------------- R18.6 nodes created INSIDE a parse function (member steps, argument lists, object entries, match cases)
    chk.rule("R18.6", "every syntax node a parse function creates besides its result (member steps, argument lists, entries, cases) has a span that starts no later than the first and ends no "
                      "earlier than the last sub-tree it contains, and an explicit (start, end) pair is in source order")
    n_inner = 0
    seen_inner = set()

    def inner_nodes(a, top=True):
        if isinstance(a, dict):
            if a.get("adt") == "AstNode" and a.get("fields") and not top:
                yield a
            for k_ in ("fields", "tup", "seq", "args"):
                for x_ in a.get(k_) or []:
                    yield from inner_nodes(x_, False)
            for k_ in ("box", "pj"):
                if k_ in a:
                    yield from inner_nodes(a[k_], False)
    for m, paths in sorted(db["roots"].items()):
        for p in paths:
            a = p.get("ast")
            if not isinstance(a, dict):
                continue
            posn = {}
            for i_, tr in enumerate(p["trace"]):
                if tr[0] == "parse":
                    posn[("ast", tr[1])] = i_
                elif tr[0] == "tok":
                    posn[("tok", tr[1])] = i_

            def where(leaf):
                mm = re.match(r"^ast:(\d+)", leaf)
                if mm:
                    return posn.get(("ast", int(mm.group(1))))
                mm = re.match(r"^(?:next|peek|location)#(\d+)", leaf)
                if mm:
                    return posn.get(("tok", int(mm.group(1))))
                return None
            for nd in inner_nodes(a):
                rng, content = nd["fields"][0], nd["fields"][1:]
                kids = [where(l_) for l_ in leaves({"seq": content}, []) if re.match(r"^ast:\d+$", l_)]
                cover = [where(l_) for l_ in leaves(rng, [])]
                if not kids or None in kids or not cover or None in cover:
                    continue
                n_inner += 1
                kind = (content[0].get("adt") or "?") + ("::" + content[0].get("variant") if isinstance(content[0], dict) and content[0].get("variant") and content[0].get("variant") != content[0].get("adt") else "") if isinstance(content[0], dict) else "?"
                key = "%s|%s" % (m, kind)
                prob = None
                if min(cover) > min(kids) or max(cover) < max(kids):
                    prob = "its span is built from things consumed between positions %d..%d of the parse, but it contains sub-trees consumed at %d..%d: the span does not contain its children" % (min(cover), max(cover), min(kids), max(kids))
                if isinstance(rng, dict) and rng.get("call") == "SourceRange::new" and len(rng.get("args", [])) == 2:
                    a0, a1 = rng["args"]
                    if isinstance(a0, dict) and isinstance(a1, dict) and a0.get("call") == "SourceRange::start" and a1.get("call") == "SourceRange::end":
                        w0 = [where(l_) for l_ in leaves(a0, [])]
                        w1 = [where(l_) for l_ in leaves(a1, [])]
                        if w0 and w1 and None not in w0 and None not in w1 and min(w0) > max(w1):
                            prob = "its span runs from the start of something parsed LATER to the end of something parsed EARLIER (reversed: the end lies before the start)"
                if prob:
                    if key not in seen_inner:
                        seen_inner.add(key)
                        chk.bad("R18.6", key, "%s creates a %s node: %s   [span: %s]" % (m, kind, prob, json.dumps(rng)[:160]), "rscel/src/compiler/compiler.rs (%s)" % m)
                else:
                    chk.ok("R18.6", key)
    chk.floor("R18.6", "inner nodes with sub-trees examined", n_inner, 80)

    # ---------------- R18.4 scanner
    sc = F.body("rscel::compiler::string_scanner::StringScanner::<'l>::next")

    class ScanPolicy(semtables.LogicPolicy):
        def inline(self, path, body):
            return path.startswith("rscel::compiler::string_scanner::")
    it = symex.Interp(F, ScanPolicy())
    st = symex.State()
    fid = st.fresh()
    init = symex.adt("rscel::compiler::string_scanner::StringScanner", "StringScanner",
                     (symex.U("input"), symex.U("iter"), symex.U("cur", "std::option::Option<char>"), symex.U("line"), symex.U("col"), symex.U("eof", "bool")))
    st.frames[fid] = {0: init}
    outs = it.run(sc, [("lref", fid, 0, ())], st)
    rows = set()
    for s2, ret in outs:
        fin = s2.frames[fid][0]
        line, col = symex.render(fin[3][3]), symex.render(fin[3][4])
        r = symex.render(ret)
        kind = "None" if r.startswith("Option::None") else "Some"
        nl = [c[2] for c in s2.cond if c[0] in ("eq",) and "10" in str(c[1])]
        rows.add((kind, line, col))
    want = {("None", "line", "col"), ("Some", "AddWithOverflow(line, 1).0", "0"), ("Some", "line", "AddWithOverflow(col, 1).0")}
    norm = set((k, re.sub(r"Add\((\w+), 1\)", r"AddWithOverflow(\1, 1).0", l), re.sub(r"Add\((\w+), 1\)", r"AddWithOverflow(\1, 1).0", c)) for k, l, c in rows)
    if norm == want:
        chk.ok("R18.4", "StringScanner::next", sorted(norm))
    else:
        chk.bad("R18.4", "StringScanner::next", "the scanner must leave (line, column) untouched when it returns no character, add one column per character and go to (line + 1, 0) on a newline; found (result, line, column) = %s" % sorted(norm), sc.file)
    lo = F.body("rscel::compiler::string_scanner::StringScanner::<'l>::location")
    ex = mirq.call_exprs(mirq.BodyQ(lo), drop=None)
    if ex == ["SourceLocation::new(p1.3, p1.4)"]:
        chk.ok("R18.4", "StringScanner::location = (line, column)")
    else:
        chk.bad("R18.4", "StringScanner::location = (line, column)", str(ex), lo.file)

    # ---------------- R18.5 token spans
    tb = F.body("rscel::compiler::string_tokenizer::StringTokenizer::<'l>::collect_next_token")
    qt = mirq.BodyQ(tb)
    cl = [b for b in F.closures_of(tb)]
    mk = []
    for b in [tb] + cl:
        qq = mirq.BodyQ(b)
        for e in mirq.call_exprs(qq, drop=None):
            if e.startswith("TokenWithLoc::new("):
                mk.append((b.path, e))
    okt = len(mk) == 1 and re.search(r"SourceRange::new\(.*, (StringTokenizer|Tokenizer)::location\(", mk[0][1])
    # token_start is (re)assigned from location() at entry and after every skipped whitespace character
    locs = qt.call_sites(r"::location$")
    nxts = qt.call_sites(r"StringScanner::<'l>::next$")
    if okt and len(locs) >= 2:
        chk.ok("R18.5", "token span endpoints", mk[0][1][:160])
    else:
        chk.bad("R18.5", "token span endpoints", "a token's span must be SourceRange::new(token_start, location()) with token_start read before the token's first character: %s" % mk, tb.file)
    chk.analysed = {"spans": nspans, "parse_functions": len(db["roots"]) - len(EXEMPT_ROOTS)}
    return chk.finish(
        "Span composition and look-ahead typestate checked on every builder path of every parse function (syntax-tree values, sub-parse and tokenizer events recorded by "
        "symbolic execution of the MIR); span arithmetic, scanner position updates (symbolic execution of StringScanner::next with a symbolic scanner state) and token span "
        "endpoints by expression / state rules. Decides the disciplines behind exact spans, not exactness on every layout.",
        ["rustc MIR", "symex summaries"], ["default features", "match-pattern spans are exempt, as in the property"],
        technique="symbolic execution: span-composition and look-ahead typestate over parser paths; symbolic scanner state transitions")
