"""C15 string / regex / math built-ins - wiring, primitive rows, sibling agreement, shapes, domain guards.

Decides how a *thin wrapper* can be wrong: which name is bound to which implementation, which std / regex primitive each
overload applies to which of its parameters (receiver vs argument, no swap), that sibling functions differ only in the one
expected primitive, which argument shapes exist, and that partial integer primitives are the checked forms.
What str::split, Regex or f64::sqrt compute is their library's contract and is not re-verified.

`python3 rules/C15.py --freeze` regenerates tables/builtin_rows.json from the current tree (to be reviewed by reading)."""
import json, os, re, sys, collections
import lib, mirq, common

PFX = "rscel::context::default_funcs::"
TABLE = os.path.join(lib.VERIF, "tables", "builtin_rows.json")

# documented names (USAGE.md "Default Functions") -> implementation the registry must bind (module path below default_funcs)
REGISTRY = {
    "contains": "string::contains::contains_methods::dispatch", "containsI": "string::contains::contains_i_methods::dispatch",
    "size": "size::methods::dispatch", "sort": "sort::methods::dispatch",
    "startsWith": "string::starts_with::starts_with_methods::dispatch", "endsWith": "string::ends_with::ends_with_methods::dispatch",
    "startsWithI": "string::starts_with::starts_with_i_methods::dispatch", "endsWithI": "string::ends_with::ends_with_i_methods::dispatch",
    "matches": "string::matches::methods::dispatch", "matchCaptures": "string::match_captures::methods::dispatch",
    "matchReplaceOnce": "string::match_replace_once::methods::dispatch", "matchReplace": "string::match_replace::methods::dispatch",
    "toLower": "string::to_lower_impl", "toUpper": "string::to_upper_impl", "remove": "string::remove::remove::dispatch",
    "replace": "string::replace::replace::dispatch", "rsplit": "string::split::rsplit::dispatch", "split": "string::split::split::dispatch",
    "splitAt": "string::split::split_at::dispatch", "trim": "string::trim_impl", "trimStart": "string::trim_start_impl",
    "trimStartMatches": "string::trim_start_matches::trim_start_matches::dispatch", "trimEnd": "string::trim_end_impl",
    "trimEndMatches": "string::trim_end_matches::trim_end_matches::dispatch", "splitWhiteSpace": "string::split_whitespace::methods::dispatch",
    "abs": "math::abs::methods::dispatch", "sqrt": "math::sqrt::methods::dispatch", "pow": "math::pow::methods::dispatch",
    "log": "math::log::methods::dispatch", "lg": "math::lg::methods::dispatch", "ceil": "math::ceil::methods::dispatch",
    "floor": "math::floor::methods::dispatch", "round": "math::round::methods::dispatch", "min": "min_impl", "max": "max_impl",
    "getDate": "time_funcs::get_date::methods::dispatch", "getDayOfMonth": "time_funcs::get_day_of_month::methods::dispatch",
    "getDayOfWeek": "time_funcs::get_day_of_week::methods::dispatch", "getDayOfYear": "time_funcs::get_day_of_year::methods::dispatch",
    "getFullYear": "time_funcs::get_full_year::methods::dispatch", "getHours": "time_funcs::get_hours::methods::dispatch",
    "getMilliseconds": "time_funcs::get_milliseconds::methods::dispatch", "getMinutes": "time_funcs::get_minutes::methods::dispatch",
    "getMonth": "time_funcs::get_month::methods::dispatch", "getSeconds": "time_funcs::get_seconds::methods::dispatch",
    "now": "now_impl", "zip": "zip_impl", "uomConvert": "uom::methods::dispatch",
}

DROP = re.compile(r"(?:CelError::\w+$|CelValue::from_err$|core::option::Option::<|core::result::Result::<|std::option::Option::<|std::result::Result::<)")

# sibling pairs: (a, b, {token in a: token in b}) - after the substitution the rows must be identical
SIBLINGS = [
    ("string::split::split::split_zssv", "string::split::rsplit::rsplit_zssv", {"str::split": "str::rsplit"}),
    ("string::trim_start_matches::trim_start_matches::trim_start_matches_zsss", "string::trim_end_matches::trim_end_matches::trim_end_matches_zsss",
     {"str::trim_start_matches": "str::trim_end_matches"}),
    ("math::ceil::methods::ceil_di", "math::floor::methods::floor_di", {"f64::ceil": "f64::floor"}),
    ("math::ceil::methods::ceil_di", "math::round::methods::round_di", {"f64::ceil": "f64::round"}),
    ("math::ceil::methods::ceil_ii", "math::floor::methods::floor_ii", {}), ("math::ceil::methods::ceil_ii", "math::round::methods::round_ii", {}),
    ("math::ceil::methods::ceil_uu", "math::floor::methods::floor_uu", {}), ("math::ceil::methods::ceil_uu", "math::round::methods::round_uu", {}),
    ("math::log::methods::log_ir", "math::lg::methods::lg_ir", {"i64::checked_ilog10": "i64::checked_ilog2"}),
    ("math::log::methods::log_ur", "math::lg::methods::lg_ur", {"u64::checked_ilog10": "u64::checked_ilog2"}),
    ("math::log::methods::log_dd", "math::lg::methods::lg_dd", {"f64::log10": "f64::log2"}),
    ("string::match_replace::methods::internal::match_replace", "string::match_replace_once::methods::internal::match_replace_once", {"Regex::replace_all": "Regex::replace"}),
    ("string::to_lower_impl", "string::to_upper_impl", {"str::to_lowercase": "str::to_uppercase"}),
    ("string::trim_impl", "string::trim_start_impl", {"str::trim": "str::trim_start"}),
    ("string::trim_impl", "string::trim_end_impl", {"str::trim": "str::trim_end"}),
    ("math::sqrt::methods::sqrt_id", "math::sqrt::methods::sqrt_ud", {"i64->f64": "u64->f64"}),
]
# case-insensitive variants: the sensitive row with both operands lower-cased
CASE_PAIRS = [
    ("string::contains::contains_methods::contains_zssb", "string::contains::contains_i_methods::contains_i_zssb"),
    ("string::starts_with::starts_with_methods::starts_with_zssb", "string::starts_with::starts_with_i_methods::starts_with_i_zssb"),
    ("string::ends_with::ends_with_methods::ends_with_zssb", "string::ends_with::ends_with_i_methods::ends_with_i_zssb"),
]
# integer overloads whose primitive is partial: the row must use the checked form and none of the panicking ones
DOMAIN = {
    "math::abs::methods::abs_ir": "i64::checked_abs", "math::lg::methods::lg_ir": "i64::checked_ilog2", "math::lg::methods::lg_ur": "u64::checked_ilog2",
    "math::log::methods::log_ir": "i64::checked_ilog10", "math::log::methods::log_ur": "u64::checked_ilog10",
    "math::pow::methods::pow_iir": "i64::checked_pow", "math::pow::methods::pow_iur": "i64::checked_pow", "math::pow::methods::pow_idr": "i64::checked_pow",
    "math::pow::methods::pow_uir": "u64::checked_pow", "math::pow::methods::pow_uur": "u64::checked_pow", "math::pow::methods::pow_udr": "u64::checked_pow",
    "string::split::split_at::split_at_zsir": "str::split_at_checked",
}
PANICKY = re.compile(r"\b(?:i64|u64)::(?:abs|pow|ilog2|ilog10|ilog)\(|str::split_at\(")


def in_scope(b):
    if b.pkg != "rscel" or not b.path.startswith(PFX):
        return False
    rest = b.path[len(PFX):]
    if not rest.startswith(("string::", "math::")):
        return False   # time / uom rows belong to C16, size to C06, sort and min / max to C04 (R04.8, R04.9 decide them exactly)
    if re.search(r"(^|::)dispatch($|::\{closure)", rest):
        return False
    return True


def row_of(b):
    q = mirq.BodyQ(b)
    calls = sorted(e for e in mirq.call_exprs(q, drop=None) if not _dropped(e))
    casts = sorted("%s->%s" % (fr, to) for (ck, fr, to), n in common.casts_of(b).items() for _ in range(n))
    cmps = sorted("%s %s %d" % (aty, op, c) for (_, op, c, aty, _o) in q.const_compares(include_expansion=False) if aty in ("usize", "i64", "u64", "i32", "u32"))
    return {"calls": calls, "casts": casts, "cmp": cmps}


_DROP_HEADS = ("Try::branch", "FromResidual::from_residual", "exchange_malloc", "slice::into_vec", "must_use", "format", "Arguments::new",
               "Argument::new", "rt::new", "Iterator::collect", "Iterator::map", "Iterator::next", "Cow::into_owned", "Option::", "Result::",
               "CelError::", "CelValue::from_err", "Vec::new", "Vec::push", "Iterator::min", "slice::iter_mut", "CelValue::from_null",
               "CelValue::from_val_slice", "RangeInclusive::", "Range::", "RangeBounds::")


def _dropped(e):
    head = e.split("(", 1)[0]
    return head.startswith(_DROP_HEADS) or head in ("collect", "map", "next")


def extract_rows(F):
    rows = {}
    scope = [b for b in F.bodies.values() if in_scope(b)]
    for b in common.root_bodies(F, scope):
        rows[b.path[len(PFX):]] = common.normal_row(F, b, _dropped, ("usize", "i64", "u64", "i32", "u32"))
    return rows


def subst(row, mapping):
    def f(s):
        for a, b in mapping.items():
            s = re.sub(r"(?<![\w:])" + re.escape(a) + r"(?![\w])", b, s)
        return s
    return {k: sorted(f(x) for x in v) for k, v in row.items()}


def run(chk, tier):
    F = lib.get_facts()
    chk.rule("R15.1", "DEFAULT_FUNCS binds exactly the documented names, each to the implementation of the same name (frozen name -> target table)")
    chk.rule("R15.2", "every overload applies the frozen std / regex primitive to the frozen parameter roles (receiver vs argument); rows extracted as expression trees over the parameters")
    chk.rule("R15.3", "sibling functions (X / XI, split / rsplit, trimStart / trimEnd Matches, ceil / floor / round, log / lg, matchReplace / Once, min / max, toLower / toUpper, trim*) differ only in the one expected primitive")
    chk.rule("R15.4", "the set of overloads (argument shapes) per function is the documented one")
    chk.rule("R15.5", "integer forms of partial primitives use the checked primitive (error outside the domain)")
    # ---- R15.1
    reg = F.registries.get("rscel::context::default_funcs::DEFAULT_FUNCS")
    if reg is None:
        raise lib.MissingAnchor("DEFAULT_FUNCS registry")
    seen = collections.Counter(r["name"] for r in reg["rows"])
    for r in reg["rows"]:
        n = r["name"]
        tgt = (r.get("target_path") or "?")
        want = REGISTRY.get(n)
        if want is None:
            chk.bad("R15.1", "name|" + n, "DEFAULT_FUNCS registers an undocumented name %r -> %s" % (n, tgt), reg["file"])
        elif seen[n] > 1:
            chk.bad("R15.1", "name|" + n, "%r is registered %d times (the later row silently wins)" % (n, seen[n]), reg["file"])
        elif tgt != PFX + want:
            chk.bad("R15.1", "name|" + n, "%r is bound to %s, expected %s" % (n, tgt, PFX + want), reg["file"])
        else:
            chk.ok("R15.1", "name|" + n, tgt[len(PFX):])
    for n in REGISTRY:
        if n not in seen:
            chk.bad("R15.1", "name|" + n, "documented function %r is not registered" % n, reg["file"])
    chk.floor("R15.1", "registry rows", len(reg["rows"]), 48)
    # load_default_funcs binds every row under its own name
    lb = F.body(PFX + "load_default_funcs")
    ql = mirq.BodyQ(lb)
    bf = ql.call_sites(r"BindContext::<'a>::bind_func$")
    if len(bf) == 1:
        chk.ok("R15.1", "load_default_funcs binds each row")
    else:
        chk.bad("R15.1", "load_default_funcs binds each row", "expected one bind_func call in the registry loop, found %d" % len(bf), lb.file)

    # ---- R15.2 / R15.4
    rows = extract_rows(F)
    frozen = json.load(open(TABLE))["rows"]
    for name in sorted(set(rows) | set(frozen)):
        if name not in frozen:
            # a new closure / helper is not by itself a violation, a new overload is (R15.4)
            if re.search(r"_z?[a-z]+$", name.split("::")[-1]) and "{closure" not in name and "internal::" not in name:
                chk.bad("R15.4", "shape|" + name, "new overload %s: the accepted argument shapes differ from the documented table" % name, "rscel/src/context/default_funcs")
            continue
        if name not in rows:
            chk.bad("R15.4", "shape|" + name, "overload / helper %s no longer exists: the accepted argument shapes differ from the documented table" % name, "rscel/src/context/default_funcs")
            continue
        got, want = dict(rows[name]), dict(frozen[name])
        # payloads of earlier results are compared as `_` (matched out by hand or handed over by a combinator: the same value)
        got["calls"] = sorted(common.payload_blind(x) for x in got["calls"])
        want["calls"] = sorted(common.payload_blind(x) for x in want.get("calls", []))
        cmp_keys = ("calls", "casts", "cmp")
        if all(got[k] == want.get(k, []) for k in cmp_keys):
            chk.ok("R15.2", "row|" + name, got["calls"][:3] if got["calls"] else "identity")
        else:
            diff = []
            for k in cmp_keys:
                a, b = collections.Counter(want.get(k, [])), collections.Counter(got[k])
                for x in (a - b):
                    diff.append("missing %s: %s" % (k, x))
                for x in (b - a):
                    diff.append("new %s: %s" % (k, x))
            chk.bad("R15.2", "row|" + name, "%s no longer applies its documented primitive to the same operands: %s" % (name, "; ".join(diff)), "rscel/src/context/default_funcs")
    chk.floor("R15.2", "overload rows", len(rows), 50)

    # ---- R15.3
    for a, b, mp in SIBLINGS:
        if a not in rows or b not in rows:
            chk.bad("R15.3", "sibling|%s~%s" % (a, b), "sibling function missing", "")
            continue
        if subst(rows[a], mp) == rows[b]:
            chk.ok("R15.3", "sibling|%s~%s" % (a, b), mp)
        else:
            chk.bad("R15.3", "sibling|%s~%s" % (a, b), "siblings must differ only by %s; %s = %s but %s = %s" % (mp, a, rows[a], b, rows[b]), "rscel/src/context/default_funcs")
    for a, b in CASE_PAIRS:
        if a not in rows or b not in rows:
            chk.bad("R15.3", "case|%s" % b, "function missing", "")
            continue
        want = subst(rows[a], {"p1": "str::to_lowercase(p1)", "p2": "str::to_lowercase(p2)"})
        want["calls"] = sorted(want["calls"] + ["str::to_lowercase(p1)", "str::to_lowercase(p2)"])
        if want == rows[b]:
            chk.ok("R15.3", "case|%s" % b, rows[b]["calls"])
        else:
            chk.bad("R15.3", "case|%s" % b, "the case-insensitive variant must be the case-sensitive one with BOTH operands lower-cased: expected %s, found %s" % (want["calls"], rows[b]["calls"]), "rscel/src/context/default_funcs/string")

    # ---- R15.4 generated dispatch: each overload is selected by exactly the argument variants of its signature
    nd = 0
    for b in sorted(F.bodies.values(), key=lambda x: x.path):
        if b.pkg != "rscel" or not b.path.endswith("::dispatch") or not b.path.startswith(PFX):
            continue
        r = common.dispatch_table(F, b)
        short = b.path[len(PFX):]
        if r is None:
            chk.bad("R15.4", "dispatch|" + short, "the generated dispatch function no longer matches on the (receiver, arguments..) tuple", b.file)
            continue
        width, drows = r
        mod = b.path.rsplit("::", 1)[0]
        overloads = sorted(x.path for x in F.bodies.values() if x.pkg == "rscel" and x.path.startswith(mod + "::") and x.path.count("::") == mod.count("::") + 1
                           and not x.path.endswith("::dispatch") and "{closure" not in x.path)
        called = sorted(set(pth for pth, _ in drows))
        if called != overloads:
            chk.bad("R15.4", "dispatch|%s|overloads" % short, "dispatch reaches %s but the module defines %s" % ([c.rsplit("::", 1)[1] for c in called], [c.rsplit("::", 1)[1] for c in overloads]), b.file)
        for pth, slots in drows:
            exp = common.expected_slots(F, pth, width)
            nd += 1
            if exp == slots:
                chk.ok("R15.4", "dispatch|" + pth[len(PFX):], slots)
            else:
                chk.bad("R15.4", "dispatch|" + pth[len(PFX):], "%s is selected for (receiver, arguments) = %s but its signature demands %s: the function accepts shapes it does not document (or rejects documented ones)" % (pth[len(PFX):], slots, exp), b.file)
        errs = [1 for i, t in b.calls() if lib.callee_of(t)[1].endswith("CelValue::argument_error")]
        if len(errs) >= 2:
            chk.ok("R15.4", "dispatch|%s|other shapes are errors" % short)
        else:
            chk.bad("R15.4", "dispatch|%s|other shapes are errors" % short, "too many arguments / unmatched shapes must be answered with an argument error", b.file)
    chk.floor("R15.4", "dispatched overloads", nd, 82)

    # ---- R15.5
    for name, prim in DOMAIN.items():
        r = rows.get(name)
        if r is None:
            chk.bad("R15.5", "domain|" + name, "overload missing", "")
            continue
        text = " ".join(r["calls"])
        if (prim + "(") in text and not PANICKY.search(text):
            chk.ok("R15.5", "domain|" + name, prim)
        else:
            chk.bad("R15.5", "domain|" + name, "%s must use %s (error outside the domain), found %s" % (name, prim, r["calls"]), "rscel/src/context/default_funcs")
    chk.analysed = {"registry_rows": len(reg["rows"]), "overload_bodies": len(rows), "sibling_pairs": len(SIBLINGS) + len(CASE_PAIRS)}
    return chk.finish(
        "Registry wiring from the HIR-resolved DEFAULT_FUNCS table; per-overload primitive rows extracted as expression trees over the parameters "
        "(resolved callee + which parameter feeds which operand) and compared with the reviewed table; sibling functions compared relationally; "
        "partial integer primitives must be the checked forms. Decides wiring / operand roles / shapes, not the functions std and regex compute.",
        ["rustc MIR + resolved callees", "std / regex contracts of the named primitives", "tables/builtin_rows.json (reviewed by reading each wrapper)"],
        ["default features", "a wrapper re-implemented without its std primitive is reported as a changed row (fail closed), see DESIGN section 6"],
        technique="MIR expression-tree extraction per overload vs frozen primitive table + relational sibling comparison")


if __name__ == "__main__":
    if "--freeze" in sys.argv:
        F = lib.get_facts()
        rows = extract_rows(F)
        json.dump({"_doc": "per-overload primitive rows of the string / regex / math built-ins: calls = expression trees over the parameters "
                           "(p1 = this / first parameter ...), casts, integer comparisons with constants. Generated by `python3 rules/C15.py --freeze`, "
                           "then reviewed by reading each wrapper against USAGE.md.",
                   "rows": rows}, open(TABLE, "w"), indent=1, sort_keys=True)
        print("wrote", TABLE, len(rows))
