"""C01 totality - structural clauses:
 R01.2 every panic-capable construct (MIR Assert terminator, call of a panicking std/chrono API) in rscel and
       rscel-to-sql is discharged by a class rule (D-derive, D-dispatch) or by a reviewed row of tables/panic_sites.json
 R01.3 tripwire: a panic-looking callee that is in neither API table fails the check (table cannot rot silently)
 R01.4 every call-graph cycle is structural over an owned value, or is cut by a depth guard that dominates the
       recursive calls, and no body on a guarded cycle builds a fresh depth counter
 R01.5 checked_jump_target compares the target against 0 and len before it is used as pc
"""
import json, os, re, sys, collections
import lib, panic_edges, common

PKGS = ("rscel", "rscel-to-sql")

STRUCTURAL = re.compile(
    r" as (std|core)::(clone::Clone|cmp::PartialEq|cmp::PartialOrd|fmt::Debug|fmt::Display|ops::Drop|hash::Hash)>::"
    r"|as rscel::types::cel_value_dyn::CelValueDyn>::(eq|as_type|access|is_truthy|any_ref)"
    r"|as std::convert::From<&?serde_json::Value>>::from"
    r"|as std::convert::From<std::vec::Vec<T>>>::from|as std::convert::From<std::result::Result<T, rscel::types::cel_error::CelError>>>::from"
    r"|_serde::(Serialize|Deserialize)|as rscel_to_sql::traits::SqlBuilder>::to_sql"
    r"|IdentFilterIter<'a> as std::iter::Iterator>::next"
    r"|CelCompiler::<'l>::reads_clock|CelCompiler::<'l>::holds_error")
STRUCTURAL_WHY = ("recursion over an owned value (AST / CelValue / serde_json::Value / SqlBuilder tree / nested bytecode): "
                  "depth = nesting depth of a value the guarded parser or evaluator produced; IdentFilterIter::next is a tail self-call "
                  "per skipped element")

GUARD_PRIMS = ("rscel::compiler::compiler::CelCompiler::<'l>::enter_nested", "rscel::utils::scoped_counter::ScopedCounter::inc")
FRESH_COUNTER = ("rscel::interp::interp::Interpreter::<'a>::new", "rscel::interp::interp::Interpreter::<'a>::empty",
                 "rscel::utils::scoped_counter::ScopedCounter::new")


# one named exception, with the reason it cannot sustain a cycle
FRESH_OK = {
    ("rscel::utils::eval_utils::eval_ident", "rscel::interp::interp::Interpreter::<'a>::empty"):
        "Interpreter::empty() has cel = None and bindings = None: its run_raw can resolve neither a stored program nor a macro / function, "
        "so no recursive edge of the cycle is reachable through it (it only pops the loop-variable identifier)",
}


def dispatch_discharge(b):
    """D-dispatch: the generated dispatch(this, args) does `args.try_into::<[CelValue; N]>().unwrap()`; sound iff both
    normalisations `len < N` (pad) and `len > N` (return error) with the same N precede it."""
    n = None
    for i, t in b.calls():
        rid, path, c = lib.callee_of(t)
        if path.endswith("Result::<T, E>::unwrap"):
            m = re.search(r"Result<\[rscel::types::cel_value::CelValue; (\d+)\]", t["atys"][0])
            if not m:
                return False, "unwrap on %s" % t["atys"][0][:60]
            if n is not None:
                return False, "more than one unwrap"
            n = int(m.group(1)); ublk = i
    if n is None:
        return True, "no unwrap"
    lt = gt = None
    for i, s in b.stmts():
        rv = s.get("rv", {})
        if rv.get("k") == "binop" and lib.op_const_int(rv["b"]) == n and rv.get("aty") == "usize":
            if rv["op"] == "Lt" and b.dominates(i, ublk):
                lt = i
            if rv["op"] == "Gt" and b.dominates(i, ublk):
                gt = i
    if lt is None or gt is None:
        return False, "missing `len < %d` / `len > %d` normalisation dominating the unwrap" % (n, n)
    return True, "N=%d, Lt@bb%d Gt@bb%d dominate unwrap@bb%d" % (n, lt, gt, ublk)


def body_has_bound_compare(b):
    for i, s in b.stmts():
        rv = s.get("rv", {})
        if rv.get("k") == "binop" and rv["op"] in ("Gt", "Ge", "Lt", "Le") and (lib.op_const_int(rv["b"]) is not None or lib.op_const_int(rv["a"]) is not None):
            return True
    return False


STACK_BUDGET = 2 * 1024 * 1024       # std's default stack of a spawned thread (also what the test harness gives every test); the main thread has 8 MiB
LEAF_ALLOWANCE = 128 * 1024          # helper chains below the recursion (tokenizer, value operations, formatting): generous constant, not derived


def _norm_symbol(nm):
    nm = nm.replace("$LT$", "<").replace("$GT$", ">").replace("$u20$", " ").replace("$C$", ",").replace("$u7b$", "{").replace("$u7d$", "}") \
           .replace("$RF$", "&").replace("$BP$", "*").replace("$u27$", "'").replace("$u5b$", "[").replace("$u5d$", "]").replace("..", "::")
    nm = re.sub(r"^_<", "<", nm)
    return nm


def _key_of_path(path):
    """comparable key of a MIR body path / a demangled symbol: generic arguments and closure indices dropped"""
    p = re.sub(r"::<[^<>]*(?:<[^<>]*>[^<>]*)*>", "", path)
    p = re.sub(r"\{closure#\d+\}", "{{closure}}", p)
    p = re.sub(r"\b(std|core|alloc)::", "", p)
    return p


def stack_budget(chk, F, cg, guarded_sccs):
    import subprocess
    chk.rule("R01.7", "stack budget: for every guarded recursion, (depth limit) x (heaviest call chain between two passes of the guard, from the compiler's frame sizes) plus an allowance "
                      "for helper calls fits the 2 MiB stack of a spawned thread - in the dev profile and in the optimised profile")
    limits = {}
    import mirq
    for path in GUARD_PRIMS:
        b = F.body(path)
        cs = sorted(set(c[2] for c in mirq.BodyQ(b).const_compares() if isinstance(c[2], int) and c[2] > 1))
        limits[path] = cs
    rr = F.body("rscel::interp::interp::Interpreter::<'a>::run_raw")
    rr_limits = sorted(set(c[2] for c in mirq.BodyQ(rr).const_compares() if isinstance(c[2], int) and 8 <= c[2] <= 4096 and c[1] in ("Gt", "Ge", "Lt", "Le")))
    for profile in ("dev", "opt"):
        r = subprocess.run([sys.executable, os.path.join(lib.VERIF, "tools", "build_stack.py"), profile], capture_output=True, text=True,
                           env=dict(os.environ, VERIF_REPO=lib.REPO if hasattr(lib, "REPO") else os.environ.get("VERIF_REPO", "/repo")))
        if r.returncode != 0:
            raise lib.MissingAnchor("frame sizes (%s profile) could not be built: %s" % (profile, r.stderr[-400:]))
        data = json.load(open(r.stdout.strip().splitlines()[-1]))
        frames = {}
        for nm, sz in data["frames"].items():
            k = _key_of_path(_norm_symbol(nm))
            frames[k] = max(frames.get(k, 0), sz)
        chk.analysed["frame records (%s)" % profile] = data["records"]
        for name, comp, guards in guarded_sccs:
            comp_set = set(comp)
            fsz, missing = {}, []
            for c in comp:
                k = _key_of_path(F.bodies[c].path)
                if k in frames:
                    fsz[c] = frames[k]
                else:
                    fsz[c] = 0
                    missing.append(lib.short(F.bodies[c].path))
            if profile == "dev" and len(missing) > max(2, len(comp) // 4):
                chk.bad("R01.7", "frames|%s|%s" % ("+".join(sorted(lib.short(F.bodies[g].path).split("::")[-1] for g in guards)), profile), "no frame size found for %d of %d functions of the cycle (%s ...): the symbol mapping does not cover this cycle" % (len(missing), len(comp), missing[:4]), "")
                continue
            rest = comp_set - guards
            memo = {}

            def longest(v):
                if v in memo:
                    return memo[v]
                memo[v] = (fsz[v], [v])          # (cycle protection: the remainder is acyclic by R01.4)
                best, bp = 0, []
                for y in cg.edges.get(v, ()):
                    if y in rest and y != v:
                        w, pth = longest(y)
                        if w > best:
                            best, bp = w, pth
                memo[v] = (fsz[v] + best, [v] + bp)
                return memo[v]
            per_level, chain = 0, []
            for g in guards:
                best, bp = 0, []
                for y in cg.edges.get(g, ()):
                    if y in rest:
                        w, pth = longest(y)
                        if w > best:
                            best, bp = w, pth
                if fsz[g] + best > per_level:
                    per_level, chain = fsz[g] + best, [g] + bp
            # the depth limit of this cycle: the constant its guard compares with
            gp = set()
            for g in guards:
                for y in cg.edges.get(g, ()):
                    if y in F.bodies and F.bodies[y].path in GUARD_PRIMS:
                        gp.add(F.bodies[y].path)
            lim = None
            if any(p.endswith("enter_nested") for p in gp):
                lim = max(limits[[p for p in gp if p.endswith("enter_nested")][0]] or [0]) or None
            elif rr_limits:
                lim = max(rr_limits)
            key = "recursion guarded in %s|%s" % ("+".join(sorted(lib.short(F.bodies[g].path).split("::")[-1] for g in guards)), profile)
            if not lim:
                chk.bad("R01.7", key + "|limit", "the depth limit of this cycle could not be read from its guard", "")
                continue
            need = lim * per_level + LEAF_ALLOWANCE
            detail = {"depth limit": lim, "bytes per level": per_level, "heaviest chain": [lib.short(F.bodies[c].path).split("::")[-1] for c in chain][:14],
                      "total": need, "budget": STACK_BUDGET, "functions without a frame record (inlined)": len(missing)}
            if need <= STACK_BUDGET:
                chk.ok("R01.7", key, detail)
            else:
                chk.bad("R01.7", key, "in the %s profile the recursion %s can need %d x %d = %.1f MiB of stack (heaviest chain per level: %s), more than the %d MiB of a spawned thread: "
                                      "input nested to the accepted limit overflows the stack and aborts the process instead of returning the depth error"
                        % (profile, name, lim, per_level, lim * per_level / 1048576.0, " > ".join(detail["heaviest chain"][:12]), STACK_BUDGET // 1048576), "rscel/src/compiler/compiler.rs")
    chk.floor("R01.7", "guarded recursions measured", len(guarded_sccs), 4)


def run(chk, tier):
    F = lib.get_facts()
    cg = F.callgraph()
    table = panic_edges.load_table()
    chk.rule("R01.2", "every Assert terminator / panicking-API call in rscel + rscel-to-sql bodies is discharged by D-derive, D-dispatch or a reviewed table row (count per function and construct)")
    chk.rule("R01.3", "panic-looking callee names must be classified in PANIC_API or SAFE_API")
    chk.rule("R01.4", "call-graph SCCs: structural-over-value, or cut by a dominating depth guard; no fresh depth counter on a guarded cycle")
    chk.rule("R01.5", "checked_jump_target tests target < 0 and target > len")
    guarded_sccs = []
    out, unclassified, nb, nc = panic_edges.census(F, PKGS)
    chk.analysed.update({"bodies": nb, "call_sites": nc, "panic_edges": sum(len(v) for v in out.values()), "table_rows": len(table)})
    for (bp, callee, line, f) in unclassified:
        if callee.endswith("RefCell::<T>::new"):
            continue
        chk.bad("R01.3", "%s|%s" % (bp, lib.short(callee)), "unclassified panic-like callee %s" % callee, "%s:%d" % (f, line))
    ndisp = 0
    seen_keys = set()
    # a reviewed row speaks about the code of a function including its closures: rows and sites are keyed by the function (closures renumber
    # and move with every restructuring), occurrences are counted together
    merged = collections.defaultdict(list)
    for (bp, sig), sites in out.items():
        root = panic_edges.root_fn(bp)
        merged[(root if root in F.by_path else bp, sig)].extend(sites)
    out = merged
    for (bp, sig), sites in sorted(out.items()):
        where = ", ".join("%s:%d" % (f, l) for l, f in sites[:4])
        bodies = [b for b in F.by_path[bp] if b.pkg in PKGS]
        if "_serde::Serialize for" in bp and bp.endswith("::serialize") and sig == "assert:Overflow:Add:usize":
            chk.ok("R01.2", "D-derive|%s" % bp)
            continue
        if bp.endswith("::dispatch") and sig == "assert:Overflow:Sub:usize":
            # `N - args.len()` padding, in the branch taken when `args.len() < N`
            for b in bodies:
                good, why = dispatch_discharge(b)
                okk = good
                for i, t in b.terms("assert"):
                    if t["msg"].get("op") == "Sub":
                        n = lib.op_const_int(t["msg"]["a"])
                        lts = [j for j, st in b.stmts() if st.get("rv", {}).get("k") == "binop" and st["rv"]["op"] == "Lt"
                               and lib.op_const_int(st["rv"]["b"]) == n and b.dominates(j, i)]
                        okk = okk and n is not None and bool(lts)
                if okk:
                    chk.ok("R01.2", "D-dispatch-pad|%s" % bp)
                else:
                    chk.bad("R01.2", "D-dispatch-pad|%s" % bp, "`N - len` padding not dominated by `len < N`", where)
            continue
        if bp.endswith("::dispatch") and sig == "call:Result::<T, E>::unwrap":
            for b in bodies:
                good, why = dispatch_discharge(b)
                ndisp += 1
                if good:
                    chk.ok("R01.2", "D-dispatch|%s" % bp, why if ndisp < 3 else None)
                else:
                    chk.bad("R01.2", "D-dispatch|%s" % bp, "generated dispatch unwrap not protected: " + why, where)
            continue
        key = bp + "|" + sig
        seen_keys.add(key)
        row = table.get(key)
        if row is None:
            # code moved into a module-private helper: the reviewed rows of ALL its callers (same construct) speak about it, as long as the
            # occurrences do not multiply (helper sites + what is left in the callers <= what was reviewed in the callers)
            moved = None
            if bodies and all(str(b_.d.get("vis", "")).startswith("Restricted") and "DefId(0:0 " not in str(b_.d.get("vis", "")) for b_ in bodies):
                ids_ = [b_.id for b_ in bodies]
                callers_ = sorted(set(panic_edges.root_fn(F.bodies[x].path) for x, ys in cg.edges.items() if x in F.bodies and any(i_ in ys for i_ in ids_) and x not in ids_))
                crow = [table.get(c_ + "|" + sig) for c_ in callers_]
                if callers_ and all(r_ is not None and r_["status"] == "safe" for r_ in crow):
                    left = sum(len(out.get((c_, sig), [])) for c_ in callers_)
                    if len(sites) + left <= sum(r_["count"] for r_ in crow):
                        moved = callers_
            if moved:
                for c_ in moved:
                    seen_keys.add(c_ + "|" + sig)
                chk.ok("R01.2", key, "moved out of %s into this private helper; covered by their reviewed rows (%s)" % ([lib.short(c_) for c_ in moved], crow[0]["reason"][:80]))
                continue
            chk.bad("R01.2", key, "panic-capable construct with no discharge: %s x%d in %s" % (sig, len(sites), bp), where)
            continue
        if len(sites) > row["count"]:
            chk.bad("R01.2", key, "%d occurrence(s) of %s in %s, only %d were reviewed (%s)" % (len(sites), sig, bp, row["count"], row["reason"]), where)
            continue
        if row.get("no_callers"):
            callers = [x for x, ys in cg.edges.items() if any(y.endswith(bp.split("rscel::", 1)[-1]) or y == bp for y in ys)]
            ids = [b.id for b in bodies]
            callers = [x for x, ys in cg.edges.items() if any(i in ys for i in ids)]
            if callers:
                chk.bad("R01.2", key, "row assumed no callers but %s calls it" % callers[0], where)
                continue
        if row["status"] == "finding":
            chk.bad("R01.2", key, row["reason"], where)
        else:
            chk.ok("R01.2", key, {"sites": where, "discharge": row["reason"]})
    chk.floor("R01.2", "dispatch functions checked", ndisp, 49)
    chk.floor("R01.2", "table rows matched", len(seen_keys & set(table)), 46)
    # D-length: constant-index bounds checks discharged by the slice-length dataflow (rules/lenfacts.py)
    for (bp_, cls_, why_) in panic_edges.DISCHARGED:
        chk.ok("R01.2", "%s|D-length|%s" % (lib.short(bp_), why_[:40]), why_)
    chk.floor("R01.2", "bounds checks with a constant index discharged by length facts", len(panic_edges.DISCHARGED), 15)

    # ---- R01.4
    nodes = [b.id for b in F.bodies.values() if b.pkg in PKGS]
    nscc = 0
    guarded = 0
    for comp in cg.sccs(nodes):
        comp_set = set(comp)
        if len(comp) == 1 and comp[0] not in cg.edges.get(comp[0], ()):
            continue
        nscc += 1
        paths = sorted(F.bodies[c].path for c in comp)
        name = lib.short(paths[0]) + ("(+%d)" % (len(comp) - 1) if len(comp) > 1 else "")
        if all(STRUCTURAL.search(p) for p in paths):
            chk.ok("R01.4", "structural|" + name, STRUCTURAL_WHY if nscc < 3 else None)
            continue
        # self-recursion bounded by a strictly decreasing unsigned parameter: every recursive call passes `param - c` (c >= 1, through
        # checked_sub's Some payload or a plain subtraction) in the position of that same parameter, so the depth is at most its first value
        roots_ = [c for c in comp if "::{closure" not in F.bodies[c].path]
        if len(roots_) == 1 and all(F.bodies[c].path.startswith(F.bodies[roots_[0]].path + "::{closure") for c in comp if c != roots_[0]):
            import mirq
            fb = F.bodies[roots_[0]]
            qf = mirq.BodyQ(fb)
            # recursive call sites, with their argument expressions over the parameters of the function itself: a call made inside one of the
            # function's closures names a captured value `p1.K`, which is operand K of the closure's construction in the function
            site_args = []
            for blk, t in fb.calls():
                if lib.callee_of(t)[0] == roots_[0]:
                    site_args.append([mirq.expr_of(qf, a_) for a_ in t.get("args", [])])
            caps = {}
            for i_, st_ in fb.stmts():
                rv_ = st_.get("rv", {})
                if rv_.get("k") == "agg" and rv_.get("ak") == "closure":
                    cid = rv_.get("def") or rv_.get("closure") or ""
                    caps[str(cid).split("::")[-1]] = [mirq.expr_of(qf, o_) for o_ in rv_["ops"]]
            for c in comp:
                if c == roots_[0]:
                    continue
                cb_ = F.bodies[c]
                qc_ = mirq.BodyQ(cb_)
                cname = cb_.path.split("::")[-1]
                for blk, t in cb_.calls():
                    if lib.callee_of(t)[0] == roots_[0]:
                        ex_ = []
                        for a_ in t.get("args", []):
                            e_ = mirq.expr_of(qc_, a_)
                            m_ = re.match(r"^\(?\*?p1\)?\.(\d+)$", e_)
                            if m_ and cname in caps and int(m_.group(1)) < len(caps[cname]):
                                e_ = caps[cname][int(m_.group(1))]
                            else:
                                e_ = "closure:" + e_
                            ex_.append(e_)
                        site_args.append(ex_)
            dec = None
            for k_ in range(fb.d.get("arg_count", 0)):
                if not re.match(r"^(u8|u16|u32|u64|u128|usize)$", fb.local_ty(k_ + 1) or ""):
                    continue
                rx_ = re.compile(r"^(?:\w+::checked_sub\(p%d, (\d+)\)\.Some\.0|Sub\(p%d, (\d+)\))$" % (k_ + 1, k_ + 1))
                ok_all = bool(site_args)
                for args_ in site_args:
                    m_ = rx_.match(args_[k_]) if k_ < len(args_) else None
                    if not m_ or int(m_.group(1) or m_.group(2)) < 1:
                        ok_all = False
                if ok_all:
                    dec = k_
                    break
            if dec is not None:
                chk.ok("R01.4", "decreasing|" + name, "self-recursion on parameter %d - c, c >= 1 (unsigned): depth is bounded by the first value of that parameter" % (dec + 1))
                continue
        # a structural recursion may go through pass-through helpers: functions that hand (parts of) their own parameters on and
        # never form a cycle among themselves - the measure (size of the owned value) cannot grow across them
        helpers = [c for c in comp if not STRUCTURAL.search(F.bodies[c].path)]
        if len(helpers) < len(comp):
            import mirq
            hs = set(helpers)

            def passes_through(c):
                b = F.bodies[c]
                q = mirq.BodyQ(b)
                for y in cg.edges[c]:
                    if y not in comp_set:
                        continue
                    for (blk, _l) in cg.sites[(c, y)]:
                        t = dict(b.calls()).get(blk)
                        args = (t or {}).get("args", [])
                        if not args:
                            return False
                        for a in args:
                            if isinstance(a, dict) and "const" in a:
                                continue
                            if q.root_param(a) is None:
                                return False
                return True
            h_cyc = [cc for cc in cg.sccs(hs) if len(cc) > 1 or cc[0] in (cg.edges.get(cc[0], set()) & hs)]
            if not h_cyc and all(passes_through(c) for c in helpers):
                chk.ok("R01.4", "structural|" + name, "structural recursion through pass-through helper(s) %s: they hand their own parameters on and do not call each other in a cycle" % sorted(lib.short(F.bodies[c].path) for c in helpers))
                continue
        # guard bodies: call a guard primitive in a block that dominates every in-SCC call block
        guards = set()
        for c in comp:
            b = F.bodies[c]
            gblocks = [i for i, t in b.calls() if lib.callee_of(t)[0] in [x for x in cg.edges[c] if F.bodies.get(x) and F.bodies[x].path in GUARD_PRIMS] and F.bodies.get(lib.callee_of(t)[0]) and F.bodies[lib.callee_of(t)[0]].path in GUARD_PRIMS]
            if not gblocks:
                continue
            rec_blocks = [blk for y in cg.edges[c] if y in comp_set for (blk, _l) in cg.sites[(c, y)]]
            if all(any(b.dominates(g, r) and g != r for g in gblocks) for r in rec_blocks):
                guards.add(c)
        rest = comp_set - guards
        # acyclic remainder?
        cyc = [cc for cc in cg.sccs(rest) if len(cc) > 1 or cc[0] in (cg.edges.get(cc[0], set()) & rest)]
        # restrict edges to rest
        bad_cyc = []
        for cc in cyc:
            s = set(cc)
            if len(cc) > 1 or cc[0] in cg.edges.get(cc[0], ()):
                bad_cyc.append(cc)
        if not guards or bad_cyc:
            ex = sorted(lib.short(F.bodies[x].path) for x in (bad_cyc[0] if bad_cyc else comp))[:6]
            chk.bad("R01.4", "unguarded|" + name, "recursion cycle not cut by a depth guard (enter_nested / ScopedCounter::inc dominating the recursive call): %s" % ex,
                    F.bodies[comp[0]].file)
            continue
        fresh = []
        for c in comp:
            for y in cg.edges[c]:
                if (F.bodies[c].path, F.bodies[y].path if y in F.bodies else y) in FRESH_OK:
                    chk.ok("R01.4", "fresh-ok|%s" % lib.short(F.bodies[c].path), FRESH_OK[(F.bodies[c].path, F.bodies[y].path)])
                    continue
                if y in F.bodies and F.bodies[y].path in FRESH_COUNTER:
                    fresh.append((F.bodies[c].path, F.bodies[y].path))
        if fresh:
            chk.bad("R01.4", "fresh-counter|%s|%s" % (lib.short(fresh[0][0]), lib.short(fresh[0][1])),
                    "%s builds a fresh depth counter (%s) on a guarded recursion cycle: the guard is reset" % fresh[0], "")
            continue
        guarded += 1
        guarded_sccs.append((name, list(comp), set(guards)))
        chk.ok("R01.4", "guarded|" + name, {"guards": sorted(lib.short(F.bodies[g].path) for g in guards), "cycle_size": len(comp)})
    for gp in GUARD_PRIMS:
        b = F.body(gp) if gp.endswith("enter_nested") else None
        if b is not None:
            if body_has_bound_compare(b):
                chk.ok("R01.4", "guard-compares|enter_nested")
            else:
                chk.bad("R01.4", "guard-compares|enter_nested", "enter_nested no longer compares the nesting counter with a constant", b.file)
    rr = F.body("rscel::interp::interp::Interpreter::<'a>::run_raw")
    if body_has_bound_compare(rr):
        chk.ok("R01.4", "guard-compares|run_raw")
    else:
        chk.bad("R01.4", "guard-compares|run_raw", "run_raw no longer compares the depth counter with a constant", rr.file)
    chk.floor("R01.4", "guarded cycles (parser, not-run, neg-run, evaluator)", guarded, 4)
    chk.analysed["sccs"] = nscc

    # ---- R01.6: a parser built while parsing inherits the depth counter
    chk.rule("R01.6", "every CelCompiler value created inside a function of the guarded parser cycle receives the creator's nesting counter "
                      "(field write `new.nesting = self.nesting`) before any method is called on it: nesting through format-string segments stays under the one limit")
    common.parser_nesting_inherited(chk, F, "R01.6", GUARD_PRIMS[0], "each level of that construct gets a fresh nesting budget, so recursion through it is unbounded")

    # ---- R01.7 stack budget of the guarded recursions (thorough tier: needs a code-generating build for the frame sizes)
    if tier == "thorough" or os.environ.get("VERIF_STACK"):
        stack_budget(chk, F, cg, guarded_sccs)

    # ---- R01.8: values built by the evaluator have bounded nesting (what makes the structural recursions of R01.4 bounded)
    chk.rule("R01.8", "bounded value nesting: a loop of the evaluator that feeds the result of one iteration into the next as a bound value (an accumulator) checks the nesting "
                      "of that value in every iteration and leaves the loop with an error when it is too deep - otherwise clone / == / drop of the accumulated value recurse without bound")
    import mirq as _mq8
    n_acc = 0
    for b in F.bodies.values():
        if b.pkg != "rscel" or "::default_macros::" not in b.path and "::interp::" not in b.path:
            continue
        q8 = _mq8.BodyQ(b)
        binds = q8.call_sites(r"BindContext::<'a>::bind_param$")
        runs = q8.call_sites(r"Interpreter::<'a>::run_raw$")
        if not binds or not runs:
            continue
        for bi, bt, _p in binds:
            loop = set(x for x in q8.reach(bi) if bi in q8.reach(x))
            if not loop:
                continue
            val = _mq8.expr_of(q8, bt["args"][2]) if len(bt["args"]) > 2 else ""
            inner_runs = [ri for ri, _t, _ in runs if ri in loop]
            # carried: the bound value is (also) the result of a run_raw call made inside the same loop
            if not (inner_runs and "Interpreter::run_raw(" in val and val.startswith("phi(")):
                continue
            n_acc += 1
            key = "%s|accumulator" % lib.short(b.path)
            cks = [(ci, ct) for ci, ct, _ in q8.call_sites(r"CelValue::nested_deeper_than$") if ci in loop and "Interpreter::run_raw(" in _mq8.expr_of(q8, ct["args"][0])]
            good = False
            for ci, ct in cks:
                lim = lib.op_const_int(ct["args"][1]) if len(ct["args"]) > 1 else None
                # the true edge of the test must leave the loop
                cur, sw = ct["t"], None
                for _ in range(6):
                    t2 = b.blocks[cur]["term"]
                    if t2 and t2["k"] == "switch":
                        sw = t2
                        break
                    ss = b.succs(cur)
                    if len(ss) != 1:
                        break
                    cur = ss[0]
                if not sw or lim is None or not (1 <= lim <= 1024):
                    continue
                zero = [c_[1] for c_ in sw["cases"] if int(c_[0]) == 0]
                true_t = sw["otherwise"] if zero else [c_[1] for c_ in sw["cases"] if int(c_[0]) == 1][0]
                if not (q8.reach(true_t) & {bi}):
                    good = True
            if good:
                chk.ok("R01.8", key, "nesting of the carried value is tested in the loop; too deep leaves the loop")
            else:
                chk.bad("R01.8", key, "%s binds the result of the previous iteration for the next one without bounding its nesting: `l.reduce(acc, x, [acc], 0)` nests one level per element, "
                                      "and cloning / comparing / dropping a value nested 20000 deep overflows the stack" % lib.short(b.path), b.file)
    chk.floor("R01.8", "accumulating loops in the evaluator (reduce)", n_acc, 1)

    # ---- R01.9: std's sort_by panics when the comparator is not a total order - it is reached only under the guard that makes it one
    import C04 as _c04
    _c04.sort_guard(chk, F, "R01.9")
    nsort = sum(1 for b_ in F.bodies.values() if b_.pkg in PKGS for _i, t_ in b_.calls()
                if re.search(r"slice::<impl \[T\]>::(sort_by|sort_unstable_by|sort_by_key|sort_by_cached_key)", lib.callee_of(t_)[1] or ""))
    sort_homes = sorted(set(lib.short(b_.path) for b_ in F.bodies.values() if b_.pkg in PKGS for _i, t_ in b_.calls()
                            if re.search(r"slice::<impl \[T\]>::(sort_by|sort_unstable_by|sort_by_key|sort_by_cached_key)", lib.callee_of(t_)[1] or "")))
    if all(re.search(r"^sort_\w+$|sort::methods::sort_", h_) for h_ in sort_homes):
        chk.ok("R01.9", "comparator sorts only in sort()", sort_homes)
    else:
        chk.bad("R01.9", "comparator sorts only in sort()", "a comparator-based std sort is called outside the guarded sort(): %s" % sort_homes, "")

    # ---- R01.5
    cj = F.body("rscel::interp::interp::Interpreter::<'a>::checked_jump_target")
    ops = set()
    for i, s in cj.stmts():
        rv = s.get("rv", {})
        if rv.get("k") == "binop" and rv["op"] in ("Lt", "Gt", "Ge", "Le"):
            ops.add((rv["op"], lib.op_const_int(rv["b"])))
    if ("Lt", 0) in ops and any(o in ("Gt",) for o, _ in ops):
        chk.ok("R01.5", "checked_jump_target", sorted(map(str, ops)))
    else:
        chk.bad("R01.5", "checked_jump_target", "expected `target < 0` and `target > len` tests, found %s" % sorted(map(str, ops)), cj.file)
    # every assignment of pc in run_raw from a jump goes through checked_jump_target: count calls
    ncj = sum(1 for i, t in rr.calls() if (lib.callee_of(t)[1] or "").endswith("checked_jump_target"))
    chk.floor("R01.5", "checked_jump_target call sites in run_raw", ncj, 2)

    return chk.finish(
        "Whole-package census of panic-capable MIR constructs (Assert terminators, calls resolved to panicking std/chrono APIs) in rscel and "
        "rscel-to-sql, each discharged by a class rule or a reviewed table row; call-graph SCC analysis for recursion guards; jump-target bounds. "
        "Decides: no undischarged panic edge, no unguarded recursion cycle. Does not decide loop termination, stack bytes, user callbacks.",
        ["rustc MIR construction and trait resolution", "PANIC_API/SAFE_API tables (std/chrono docs)", "tables/panic_sites.json rows (reviewed by reading)"],
        ["A-size: sources/programs < 2^31 tokens", "A-user: user-bound functions, Dyn values, protobuf messages are outside the analysed program",
         "python/wasm binding crates are not covered by R01.2 (their unwraps sit on the FFI boundary)"],
        technique="MIR panic-edge census + call-graph SCC guard dominance")
