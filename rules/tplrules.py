"""Rules over the emission templates (ctemplates.build_db) shared by C02 / C05 / C06 / C09 / C10 / C14 / C17."""
import re, collections
import lib, ctemplates, vmtable


def load(F):
    db = ctemplates.build_db(F)
    return db


def vm_effects(F):
    """per-opcode stack effects derived from symbolic execution of the dispatch arms (follows closures and iterator chains):
    opcode -> set of (fixed pops, pops per counted element, pushes) in the same form as vmtable.EXPECTED uses"""
    import semtables
    vm = vmtable.VM(F)
    eff = {}
    for name in vm.arms:
        rows = semtables.arm_paths(F, vm, name)
        if not rows:
            eff[name] = set()
            continue
        pairs = set((sum(1 for e in ev if e[0] == "pop"), sum(1 for e in ev if e[0] == "push")) for _, ev in rows)
        pops = sorted(set(a for a, _ in pairs))
        pushes = set(b for _, b in pairs)
        if len(pushes) != 1:
            eff[name] = set((a, 0, b) for a, b in pairs)
            eff[name].add((-1, -1, -1))         # marks disagreement between paths
            continue
        p = next(iter(pushes))
        if len(pops) == 1:
            eff[name] = {(pops[0], 0, p)}
        else:
            step = pops[1] - pops[0]
            if all(pops[i + 1] - pops[i] == step for i in range(len(pops) - 1)):
                eff[name] = {(pops[0], 0, p), (pops[0], step, p)}
            else:
                eff[name] = set((a, 0, p) for a in pops) | {(-1, -1, -1)}
    return vm, eff


def effect_of(name, eff):
    """(fixed pops, per-count pops, pushes) of an opcode from the extracted VM table; None if the arm's paths disagree"""
    e = eff.get(name)
    if not e:
        return None
    fixed = {(f, p) for (f, l, p) in e}
    if len(fixed) != 1:
        return None
    f, p = next(iter(fixed))
    l = max(l for (_, l, _) in e)
    return (f, l, p)


def int_arg(it):
    if it.get("args"):
        try:
            return int(it["args"][0])
        except ValueError:
            return None
    return None


# stack contract of each parse function's code: (values it needs on the stack, net effect).  Expression levels push one value;
# the prefix-operator lists and a match pattern transform the value on top of the stack (the member / the duplicated scrutinee).
CONTRACT = {"parse_not_list": (1, 0), "parse_neg_list": (1, 0), "parse_match_pattern": (1, 0)}


def contract(callee):
    return CONTRACT.get(callee, (0, 1))


def stack_check(items, eff, where, symbolic_count=None, callees=None, entry=0, net=1):
    """abstract execution of one template block. Children push exactly one value (induction hypothesis).
    returns list of problem strings (empty = well-formed: heights agree at labels, never negative, forward jumps only,
    every referenced label placed once after its references, block ends at height 1)"""
    probs = []
    h = entry
    callees = callees or {}
    pending = collections.defaultdict(list)
    placed = set()
    referenced = set()
    for n, it in enumerate(items):
        k = it["k"]
        if k == "label":
            lab = it["label"]
            if lab in placed:
                probs.append("%s: label L%s placed twice" % (where, lab))
            placed.add(lab)
            inc = list(pending.pop(lab, []))
            if h is not None:
                inc.append(h)
            if not inc:
                h = None
                continue
            if len(set(inc)) != 1:
                probs.append("%s: paths meet at L%s with different stack heights %s" % (where, lab, sorted(set(inc))))
            h = max(inc)
            continue
        if h is None:
            # dead code after an unconditional jump
            probs.append("%s: item %d (%s) is unreachable (after an unconditional jump, before any label)" % (where, n, k))
            h = 0
        if k == "code":
            need, dn = contract(callees.get(it["child"], ""))
            if h < need:
                probs.append("%s: the code of child %d (%s) needs %d value(s) on the stack, %d present" % (where, it["child"], callees.get(it["child"], "?"), need, h))
            h += dn
        elif k == "block":
            sub = stack_check(it["items"], eff, where + "/resolved-block", callees=callees)
            probs.extend(sub)
            h += 1
        elif k == "jmp" or k == "jmpcond":
            lab = it["label"]
            if isinstance(lab, str):
                probs.append("%s: jump to an untracked label %s" % (where, lab))
                continue
            if lab in placed:
                probs.append("%s: backward jump to L%s (compiled code must be loop-free)" % (where, lab))
            referenced.add(lab)
            if k == "jmpcond":
                h -= 1
                if h < 0:
                    probs.append("%s: JMPCOND pops from an empty stack" % where)
                    h = 0
                pending[lab].append(h)
            else:
                pending[lab].append(h)
                h = None
        elif k == "op":
            name = it["name"]
            e = effect_of(name, eff)
            if e is None:
                probs.append("%s: opcode %s has no single stack effect in the VM" % (where, name))
                continue
            f, l, p = e
            pops = f
            if l:
                cnt = int_arg(it)
                if cnt is None:
                    if symbolic_count is not None:
                        cnt = symbolic_count
                    else:
                        probs.append("%s: %s with a count that is not a known constant (%s)" % (where, name, it.get("args")))
                        cnt = 0
                pops += l * cnt
            h -= pops
            if h < 0:
                probs.append("%s: %s pops %d value(s) but only %d are on the stack" % (where, name, pops, h + pops))
                h = 0
            h += p
            if "nested" in it:
                probs.extend(stack_check(it["nested"], eff, where + "/nested block of " + name, callees=callees))
        elif k == "rawjmp":
            probs.append("%s: the compiler emits a raw relative %s %s instead of a label (offsets are only computed by resolve())" % (where, it["name"], it.get("args")))
        else:
            probs.append("%s: unrecognised builder construct: %s" % (where, it.get("text", k)))
    for lab, hs in pending.items():
        probs.append("%s: label L%s is referenced but never placed" % (where, lab))
    if h is None:
        probs.append("%s: block ends in dead code" % where)
    elif h != entry + net:
        probs.append("%s: block ends with %d value(s) on the stack, its contract is %d -> %d" % (where, h, entry, entry + net))
    return probs


def conditional_children(items):
    """children whose code can be skipped: a jump before them targets a label placed after them"""
    pos = {}
    for n, it in enumerate(items):
        if it["k"] == "label":
            pos[it["label"]] = n
    cond = {}
    for n, it in enumerate(items):
        if it["k"] == "code":
            guards = []
            for m in range(n):
                j = items[m]
                if j["k"] in ("jmp", "jmpcond") and pos.get(j["label"], -1) > n:
                    guards.append((j["k"], j.get("when"), m))
            cond[it["child"]] = guards
    return cond


def children_in(items):
    out = []
    for it in items:
        if it["k"] == "code":
            out.append(it["child"])
        elif it["k"] == "block":
            out.extend(children_in(it["items"]))
        elif it["k"] == "op" and "nested" in it:
            out.extend(children_in(it["nested"]))
    return out


def variant_of_child(path, k):
    """'ConstExpr' | 'Bytecode' | None : what the path assumed about child k's NodeValue"""
    tag = "child%d.inner" % k
    for c in path["cond"]:
        if c[0] == "variant" and len(c) > 3 and c[3] == tag:
            return c[2]
    return None


def token_of(path):
    """Token variants matched on the path, in order"""
    return [c[2] for c in path["cond"] if c[0] == "variant" and c[1].endswith("Token")]


# ------------------------------------------------------------------------------------ symbolic value of straight-line templates

def vm_semantics(F, vm, names):
    """opcode -> list of (number of pops, push expression over pop1..popN) from symbolic execution of the VM arms"""
    import semtables
    out = {}
    for n in names:
        rows = semtables.arm_paths(F, vm, n)
        sem = []
        for preds, ev in rows or []:
            pops = sum(1 for e in ev if e[0] == "pop")
            pushes = [e[1] for e in ev if e[0] == "push"]
            if len(pushes) == 1:
                sem.append((pops, pushes[0]))
        out[n] = sem
    return out


def sym_value(items, sem, eff):
    """value a jump-free template leaves on the stack, as an expression over its children c0, c1, ..; None if not straight-line"""
    stack = []
    for it in items:
        k = it["k"]
        if k == "code":
            stack.append("c%d" % it["child"])
        elif k == "op":
            name = it["name"]
            if name == "Push":
                stack.append(it["args"][0] if it.get("args") else "?")
                continue
            e = effect_of(name, eff)
            if e is None or name not in sem:
                return None
            f, l, p = e
            cnt = int_arg(it) if l else 0
            if l and cnt is None:
                return None
            pops = f + l * cnt
            cand = sorted(set(x for (n, x) in sem[name] if n == pops))
            if len(cand) != 1 or len(stack) < pops:
                return None
            expr = cand[0]
            vals = [stack.pop() for _ in range(pops)]       # vals[0] = pop1
            # substitute highest index first so that pop1 does not clobber pop10
            for i in range(pops, 0, -1):
                expr = re.sub(r"\bpop%d\b" % i, vals[i - 1].replace("\\", "\\\\"), expr)
            stack.append(expr)
        else:
            return None
    if len(stack) != 1:
        return None
    return stack[0]
