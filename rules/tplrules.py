"""Rules over the emission templates (ctemplates.build_db) shared by C02 / C05 / C06 / C09 / C10 / C14 / C17."""
import re, collections
import lib, ctemplates, vmtable


def load(F):
    db = ctemplates.build_db(F)
    return db


def vm_effects(F):
    vm = vmtable.VM(F)
    eff = {}
    for name in vm.arms:
        eff[name] = vm.effects(name)
    return vm, eff


def effect_of(name, eff):
    """(fixed pops, per-count pops, pushes) of an opcode from the extracted VM table; None if the arm's paths disagree"""
    e = eff.get(name)
    if not e:
        return None
    fixed = {(f, p) for (f, l, p) in e}
    if len(fixed) != 1:
        return None
    f, p = next(iter(fixed))
    l = max(l for (_, l, _) in e)
    return (f, l, p)


def int_arg(it):
    if it.get("args"):
        try:
            return int(it["args"][0])
        except ValueError:
            return None
    return None


# stack contract of each parse function's code: (values it needs on the stack, net effect).  Expression levels push one value;
# the prefix-operator lists and a match pattern transform the value on top of the stack (the member / the duplicated scrutinee).
CONTRACT = {"parse_not_list": (1, 0), "parse_neg_list": (1, 0), "parse_match_pattern": (1, 0)}


def contract(callee):
    return CONTRACT.get(callee, (0, 1))


def stack_check(items, eff, where, symbolic_count=None, callees=None, entry=0, net=1):
    """abstract execution of one template block. Children push exactly one value (induction hypothesis).
    returns list of problem strings (empty = well-formed: heights agree at labels, never negative, forward jumps only,
    every referenced label placed once after its references, block ends at height 1)"""
    probs = []
    h = entry
    callees = callees or {}
    pending = collections.defaultdict(list)
    placed = set()
    referenced = set()
    for n, it in enumerate(items):
        k = it["k"]
        if k == "label":
            lab = it["label"]
            if lab in placed:
                probs.append("%s: label L%s placed twice" % (where, lab))
            placed.add(lab)
            inc = list(pending.pop(lab, []))
            if h is not None:
                inc.append(h)
            if not inc:
                h = None
                continue
            if len(set(inc)) != 1:
                probs.append("%s: paths meet at L%s with different stack heights %s" % (where, lab, sorted(set(inc))))
            h = max(inc)
            continue
        if h is None:
            # dead code after an unconditional jump
            probs.append("%s: item %d (%s) is unreachable (after an unconditional jump, before any label)" % (where, n, k))
            h = 0
        if k == "code":
            need, dn = contract(callees.get(it["child"], ""))
            if h < need:
                probs.append("%s: the code of child %d (%s) needs %d value(s) on the stack, %d present" % (where, it["child"], callees.get(it["child"], "?"), need, h))
            h += dn
        elif k == "block":
            sub = stack_check(it["items"], eff, where + "/resolved-block", callees=callees)
            probs.extend(sub)
            h += 1
        elif k == "jmp" or k == "jmpcond":
            lab = it["label"]
            if isinstance(lab, str):
                probs.append("%s: jump to an untracked label %s" % (where, lab))
                continue
            if lab in placed:
                probs.append("%s: backward jump to L%s (compiled code must be loop-free)" % (where, lab))
            referenced.add(lab)
            if k == "jmpcond":
                h -= 1
                if h < 0:
                    probs.append("%s: JMPCOND pops from an empty stack" % where)
                    h = 0
                pending[lab].append(h)
            else:
                pending[lab].append(h)
                h = None
        elif k == "op":
            name = it["name"]
            e = effect_of(name, eff)
            if e is None:
                probs.append("%s: opcode %s has no single stack effect in the VM" % (where, name))
                continue
            f, l, p = e
            pops = f
            if l:
                cnt = int_arg(it)
                if cnt is None:
                    if symbolic_count is not None:
                        cnt = symbolic_count
                    else:
                        probs.append("%s: %s with a count that is not a known constant (%s)" % (where, name, it.get("args")))
                        cnt = 0
                pops += l * cnt
            h -= pops
            if h < 0:
                probs.append("%s: %s pops %d value(s) but only %d are on the stack" % (where, name, pops, h + pops))
                h = 0
            h += p
            if "nested" in it:
                probs.extend(stack_check(it["nested"], eff, where + "/nested block of " + name, callees=callees))
        elif k == "rawjmp":
            probs.append("%s: the compiler emits a raw relative %s %s instead of a label (offsets are only computed by resolve())" % (where, it["name"], it.get("args")))
        else:
            probs.append("%s: unrecognised builder construct: %s" % (where, it.get("text", k)))
    for lab, hs in pending.items():
        probs.append("%s: label L%s is referenced but never placed" % (where, lab))
    if h is None:
        probs.append("%s: block ends in dead code" % where)
    elif h != entry + net:
        probs.append("%s: block ends with %d value(s) on the stack, its contract is %d -> %d" % (where, h, entry, entry + net))
    return probs


def conditional_children(items):
    """children whose code can be skipped: a jump before them targets a label placed after them"""
    pos = {}
    for n, it in enumerate(items):
        if it["k"] == "label":
            pos[it["label"]] = n
    cond = {}
    for n, it in enumerate(items):
        if it["k"] == "code":
            guards = []
            for m in range(n):
                j = items[m]
                if j["k"] in ("jmp", "jmpcond") and pos.get(j["label"], -1) > n:
                    guards.append((j["k"], j.get("when"), m))
            cond[it["child"]] = guards
    return cond


def children_in(items):
    out = []
    for it in items:
        if it["k"] == "code":
            out.append(it["child"])
        elif it["k"] == "block":
            out.extend(children_in(it["items"]))
        elif it["k"] == "op" and "nested" in it:
            out.extend(children_in(it["nested"]))
    return out


def variant_of_child(path, k):
    """'ConstExpr' | 'Bytecode' | None : what the path assumed about child k's NodeValue"""
    tag = "child%d.inner" % k
    for c in path["cond"]:
        if c[0] == "variant" and len(c) > 3 and c[3] == tag:
            return c[2]
    return None


def token_of(path):
    """Token variants matched on the path, in order"""
    return [c[2] for c in path["cond"] if c[0] == "variant" and c[1].endswith("Token")]
