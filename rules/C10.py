"""C10 emitted bytecode is well-formed on every path.

Decides, by induction over the grammar: IF every sub-program a template embeds is well-formed (pushes exactly one value,
no free labels) THEN every template the compiler can emit is: heights agree where paths meet, nothing pops from an empty
stack, the block ends with exactly one value, every jump is forward to a label placed exactly once inside the block
(so resolved offsets land inside the block or at its end and control flow is loop-free).  The templates are extracted by
symbolic execution of the parse functions' MIR (rules/symex.py, rules/ctemplates.py), so every builder path is covered,
including the ones no test operand selects.
  R10.1 VM stack-effect table extracted from run_raw = reviewed table; one arm per ByteCode variant
  R10.2 every template of every parse function passes the abstract stack / label check (incl. nested call / f-string blocks)
  R10.3 resolver and VM agree on the jump base ("instruction after the jump") and the VM returns exactly the bounds-checked target
  R10.4 raw relative jumps (ByteCode::Jmp / JmpCond) are constructed only by resolve()
  R10.5 the PreResolvedByteCode builder API that the symbolic execution summarises does what the summary says
Not decided: hand-made CelByteCode passed to run_raw (only that the VM bounds-checks it)."""
import re, collections
import lib, mirq, tplrules, vmtable, ctemplates

PRBC = "rscel::compiler::compiled_prog::preresolved::PreResolvedByteCode"
CJT = "rscel::interp::interp::Interpreter::<'a>::checked_jump_target"


def run(chk, tier):
    F = lib.get_facts()
    chk.rule("R10.1", "per-opcode stack effect extracted from the VM's dispatch arms (pops, pops per counted element, pushes on every continuing path) equals the reviewed table; every ByteCode variant has an arm")
    chk.rule("R10.2", "every emission template (symbolic execution of each parse function, all builder paths) is well-formed given well-formed children")
    chk.rule("R10.3", "resolve() and the VM use the same jump base; checked_jump_target returns the value it bounds-checked")
    chk.rule("R10.4", "only resolve() constructs raw relative jumps")
    chk.rule("R10.5", "PreResolvedByteCode::push / extend / into_iter / from_iter append every element in order")
    vm, eff = tplrules.vm_effects(F)
    # ---- R10.1
    bc = [a for a in F.adts.values() if a["path"] == vmtable.BYTECODE and a["pkg"] == "rscel"][0]
    variants = [v["name"] for v in bc["variants"]]
    for v in variants:
        if v not in vm.arms:
            chk.bad("R10.1", "arm|" + v, "ByteCode::%s has no arm in run_raw's dispatch" % v, vm.b.file)
            continue
        want = vmtable.EXPECTED.get(v)
        got = eff[v]
        if want is None:
            chk.bad("R10.1", "effect|" + v, "new opcode %s: stack effect %s not in the reviewed table" % (v, sorted(got)), vm.b.file)
            continue
        f, l, p = want
        exp = {(f, 0, p), (f, l, p)} if l else {(f, 0, p)}
        if got == exp:
            chk.ok("R10.1", "effect|" + v, {"pops": f, "pops_per_element": l, "pushes": p})
        else:
            chk.bad("R10.1", "effect|" + v, "VM arm %s has stack effects %s on its continuing paths, reviewed table says %s (fixed pops, pops per counted element, pushes)" % (v, sorted(got), sorted(exp)), vm.b.file)
    chk.floor("R10.1", "ByteCode variants", len(variants), 28)

    # ---- R10.2
    db = tplrules.load(F)
    for m, errx in db["errors"].items():
        chk.bad("R10.2", "extract|" + m, "template extraction failed for %s (fail closed): %s" % (m, errx[:300]), "rscel/src/compiler/compiler.rs")
    ntpl = 0
    distinct = set()
    for m, paths in sorted(db["roots"].items()):
        seen = {}
        for p in paths:
            if p["kind"] != "code":
                if p["kind"] == "?":
                    seen.setdefault("?" + p["text"], p)
                continue
            seen.setdefault(p["text"], p)
        if not paths and m not in db["errors"]:
            chk.bad("R10.2", "extract|" + m, "no returning path found for %s" % m, "rscel/src/compiler/compiler.rs")
        for text, p in sorted(seen.items()):
            ntpl += 1
            key = "%s|%s" % (m, text[:150])
            if text.startswith("?"):
                chk.bad("R10.2", key, "%s returns a program the extractor cannot decode: %s" % (m, text[:200]), "rscel/src/compiler/compiler.rs")
                continue
            sym = None
            for it in p["items"]:
                if it["k"] == "op" and it["name"] == "FmtString" and tplrules.int_arg(it) is None and "len" in " ".join(it.get("args", [])):
                    # one group per segment of the token's segment vector; the count operand is that vector's length
                    sym = sum(1 for x in p["items"] if x["k"] == "op" and x["name"] == "Call")
            entry, net = tplrules.contract(m)
            probs = tplrules.stack_check(p["items"], eff, m, symbolic_count=sym, callees={k: c for k, c in p["parses"]}, entry=entry, net=net)
            if probs:
                chk.bad("R10.2", key, "; ".join(probs[:4]) + "   [template: %s]" % text[:300], "rscel/src/compiler/compiler.rs (%s)" % m)
            else:
                chk.ok("R10.2", key, text[:200] if len(distinct) < 30 else None)
            distinct.add(text)
    chk.floor("R10.2", "distinct templates", len(distinct), 60)
    chk.floor("R10.2", "parse functions analysed", len([m for m, ps in db["roots"].items() if ps]), 15)

    # ---- R10.3 VM side
    b = F.body(CJT)
    q = mirq.BodyQ(b)
    oks = [(i, s) for (i, adt_, var, s) in q.aggregates(adt_suffix="result::Result") if var == "Ok"]
    cm = q.const_compares()
    names = {}
    lt0 = [mirq.expr_of(q, o) for (blk, op, c, aty, o) in cm if op == "Lt" and c == 0 and aty == "isize"]
    gts = []
    for i, s in b.stmts():
        rv = s.get("rv", {})
        if rv.get("k") == "binop" and rv["op"] == "Gt" and rv.get("aty") == "isize":
            gts.append((mirq.expr_of(q, rv["a"]), mirq.expr_of(q, rv["b"])))
    okv = [mirq.expr_of(q, s["rv"]["ops"][0]) for i, s in oks]
    strip = lambda e: re.sub(r"^\((.*) as usize\)$", r"\1", e)
    target = "isize::checked_add((p1 as isize), (p2 as isize))"
    good = len(okv) == 1 and len(lt0) == 1 and len(gts) == 1 and strip(okv[0]) == lt0[0] == gts[0][0] and target in lt0[0] and gts[0][1] == "(p3 as isize)"
    if good:
        chk.ok("R10.3", "checked_jump_target|returns the checked value", {"target": lt0[0][:120], "bounds": "0 <= target <= len"})
    else:
        chk.bad("R10.3", "checked_jump_target|returns the checked value",
                "the VM must return exactly the value it compared with 0 and len (target = pc + dist): returned %s, compared `< 0`: %s, `> len`: %s" % (okv, lt0, gts), b.file)
    # call sites pass the already advanced pc (the instruction after the jump)
    rr = vm.b
    qq = vm.q
    adv = None
    for i, s in rr.stmts():
        rv = s.get("rv", {})
        if rv.get("k") == "binop" and rv["op"].startswith("Add") and rv.get("aty") == "usize" and lib.op_const_int(rv["b"]) == 1 and i in vm.dom:
            adv = i
    sites = [(i, t) for (i, t, p) in qq.call_sites(r"checked_jump_target$")]
    # (every jump arm goes through the bounds check: at least one call site inside the Jmp arm and inside the JmpCond arm)
    in_arm = {arm_: [i_ for i_, _t in sites if i_ in vm.region(arm_)] for arm_ in ("Jmp", "JmpCond")}
    okb = adv is not None and all(in_arm.values())
    for i, t in sites:
        e = mirq.expr_of(qq, t["args"][0])
        # pc after `pc += 1`: the phi that includes the incremented value, not the saved old pc
        if "AddWithOverflow" not in e and "Add(" not in e:
            okb = False
    if okb:
        chk.ok("R10.3", "VM jump base = next instruction", {"call_sites": len(sites)})
    else:
        chk.bad("R10.3", "VM jump base = next instruction", "run_raw must advance pc before dispatch and pass the advanced pc to checked_jump_target at all %d jump sites" % len(sites), rr.file)
    # resolver side, decided on a concrete program by symbolic execution of resolve():
    #   [Jmp L7, X, L7:, JmpCond(w) L9, Y, Z, L9:]  must become  [Jmp(1), X, JmpCond(w, 2), Y, Z]
    # (distance = position of the label counted in instructions - position right after the jump), the base the VM uses above
    import symex as _sx, semtables as _st
    rb = F.body(PRBC + "::resolve")
    PRCP_ = "rscel::compiler::compiled_prog::preresolved::PreResolvedCodePoint"

    class ResolvePolicy(_st.LogicPolicy):
        max_paths = 2000

        def limit_for(self, body, blk):
            return 14

        def inline(self, path, body):
            return "preresolved" in path or "cel_byte_code" in path or "{closure" in path
    cps_ = [_sx.adt(PRCP_, "Jmp", (_sx.I(7),)), _sx.adt(PRCP_, "Bytecode", (_sx.U("X"),)), _sx.adt(PRCP_, "Label", (_sx.I(7),)), _sx.adt(PRCP_, "JmpCond", (_sx.U("w"), _sx.I(9))),
            _sx.adt(PRCP_, "Bytecode", (_sx.U("Y"),)), _sx.adt(PRCP_, "Bytecode", (_sx.U("Z"),)), _sx.adt(PRCP_, "Label", (_sx.I(9),))]
    self_ = _sx.adt(PRBC, "PreResolvedByteCode", (("seq", tuple(cps_)), _sx.I(5)))
    try:
        outs_ = [_sx.render(_sx.deep(st_, r_)) for st_, r_ in _sx.Interp(F, ResolvePolicy()).run(rb, [self_])]
    except Exception as e_:
        outs_ = ["could not be executed symbolically: %s" % str(e_)[:100]]
    want_r = r"^CelByteCode::CelByteCode\(\[ByteCode::Jmp\(1\), X, ByteCode::JmpCond\(w, 2\), Y, Z\]\)$"
    if len(outs_) == 1 and re.match(want_r, outs_[0]):
        chk.ok("R10.3", "resolver jump base = next instruction", outs_[0])
    else:
        chk.bad("R10.3", "resolver jump base = next instruction", "resolve([Jmp L7, X, L7:, JmpCond(w) L9, Y, Z, L9:]) must be [Jmp(1), X, JmpCond(w, 2), Y, Z] - "
                                                                   "distances count instructions from the position right after the jump, the base the VM adds them to; found %s" % outs_[:2], rb.file)
    # ---- R10.6 resolve() emits exactly one instruction per non-label code point (label positions are counted over code points)
    chk.rule("R10.6", "resolve(): in the emitting loop every Bytecode / Jmp / JmpCond code point appends exactly one instruction on every path and a Label appends none; the output is "
                      "touched by nothing but those appends - so the positions counted for the labels are the positions of the emitted instructions")
    qr = mirq.BodyQ(rb)
    sws = qr.switches_on(F, "rscel::compiler::compiled_prog::preresolved::PreResolvedCodePoint")
    # the emitting loop is the one whose arms construct ByteCode::Jmp
    emit = []
    for sblk, _pl, arms_, other_ in sws:
        regs = {nm: qr.arm_region(sblk, tg) for nm, tg in arms_.items()}
        if any(x[2] in ("Jmp", "JmpCond") and x[0] in set().union(*regs.values()) for x in qr.aggregates(adt_suffix="bytecode::ByteCode")):
            emit.append((sblk, arms_, other_, regs))
    if len(emit) != 1:
        raise lib.MissingAnchor("the emitting loop of resolve() (switch on PreResolvedCodePoint that builds ByteCode::Jmp): found %d" % len(emit))
    sblk, arms_, other_, regs = emit[0]
    # the output local: first `&mut` argument of the push calls
    def out_calls(region):
        res = []
        for i_, t_ in rb.calls():
            if i_ not in region or not t_.get("args"):
                continue
            aty = (t_.get("atys") or [""])[0]
            if aty.startswith("&mut") and re.search(r"CelByteCode|Vec<rscel::interp::types::bytecode::ByteCode", aty):
                res.append((i_, lib.callee_of(t_)[1] or "?"))
        return res
    heads = set(rb.dominators().get(sblk, {sblk}))
    all_arm_targets = dict(arms_)
    if other_ is not None and not (rb.blocks[other_]["term"] or {}).get("k") == "unreachable":
        all_arm_targets["<otherwise>"] = other_
    for nm, tg in sorted(all_arm_targets.items()):
        region = qr.arm_region(sblk, tg)
        oc = out_calls(region)
        pushes = [c_ for c_ in oc if re.search(r"::push$", c_[1])]
        others = [c_ for c_ in oc if not re.search(r"::push$", c_[1])]
        key = "resolve|%s" % nm
        if others:
            chk.bad("R10.6", key, "the %s arm of resolve() changes the output through %s: every code point must translate to exactly one appended instruction, "
                                  "otherwise jumps computed from the code-point positions land on the wrong instruction" % (nm, sorted(set(lib.short(c_[1]) for c_ in others))), rb.file)
            continue
        if nm == "Label":
            if pushes:
                chk.bad("R10.6", key, "a Label appends an instruction", rb.file)
            else:
                chk.ok("R10.6", key, "appends nothing")
            continue
        # exactly one push on every path from the arm back to the loop head: blocking the push blocks must cut the arm off from its exit,
        # and no push block may reach another push block inside the arm
        pb = set(i_ for i_, _ in pushes)
        exits = set()
        for x_ in region:
            for y_ in rb.succs(x_):
                if y_ not in region and not rb.blocks[y_].get("cleanup"):
                    exits.add(y_)
        skip = qr.reach(tg, blocked=pb | heads)
        leaks = [x_ for x_ in skip for y_ in rb.succs(x_) if y_ in heads]
        twice = [a_ for a_ in pb for b_ in pb if a_ != b_ and b_ in qr.reach(rb.blocks[a_]["term"]["t"], blocked=heads)] if pb else []
        if not pb or leaks or twice:
            chk.bad("R10.6", key, "the %s arm of resolve() does not append exactly one instruction on every path (appends: %d, paths without an append: %s, paths with two: %s): "
                                  "the label positions counted in the first loop then differ from the emitted instruction positions" % (nm, len(pb), bool(leaks), bool(twice)), rb.file)
        else:
            chk.ok("R10.6", key, "exactly one append on every path")
    chk.floor("R10.6", "arms of the emitting loop", len(all_arm_targets), 4)
    allowed = re.compile(r"preresolved::PreResolvedByteCode::resolve$|_serde::Deserialize|as std::clone::Clone>::clone$")
    n = 0
    for bb_ in F.bodies.values():
        if bb_.pkg != "rscel":
            continue
        for i, s in bb_.stmts():
            rv = s.get("rv", {})
            if rv.get("k") == "agg" and rv.get("ak") == "adt" and rv["adt"].endswith("bytecode::ByteCode") and rv["variant"] in ("Jmp", "JmpCond"):
                n += 1
                if allowed.search(bb_.path) or "::test" in bb_.path or "::tests::" in bb_.path:
                    chk.ok("R10.4", "ctor|%s|%s" % (rv["variant"], bb_.path))
                else:
                    chk.bad("R10.4", "ctor|%s|%s" % (rv["variant"], bb_.path), "%s builds a raw relative ByteCode::%s: offsets must come from labels through resolve()" % (bb_.path, rv["variant"]), bb_.file)
    chk.floor("R10.4", "raw jump constructors seen", n, 2)

    # ---- R10.5
    want = {
        PRBC + "::push": ["Into::into(p2)", "Vec::push(p1.0, Into::into(p2))"],
        PRBC + "::extend": ["IntoIterator::into_iter(p2)", "Iterator::next(IntoIterator::into_iter(p2))", "Vec::push(p1.0, Iterator::next(IntoIterator::into_iter(p2)).Some.0)"],
    }
    for path, exp in want.items():
        bb_ = F.body(path)
        got = mirq.call_exprs(mirq.BodyQ(bb_), drop=None)
        if got == exp:
            # the push in extend is unconditional: it post-dominates the element fetch (every path from Some reaches it)
            chk.ok("R10.5", lib.short(path), exp[-1])
        else:
            chk.bad("R10.5", lib.short(path), "%s no longer appends every element in order: %s" % (path, got), bb_.file)
    eb = F.body(PRBC + "::extend")
    eq_ = mirq.BodyQ(eb)
    nx = eq_.call_sites(r"Iterator>::next$")
    ps = eq_.call_sites(r"Vec::<T, A>::push$")
    if len(nx) == 1 and len(ps) == 1:
        ve = eq_.variant_edges(nx[0][0])
        if ve and ps[0][0] in eq_.reach(ve["Some"]) and not [x for x in eq_.reach(ve["Some"], blocked={ps[0][0]}) if x == nx[0][0]]:
            chk.ok("R10.5", "extend|push on every element")
        else:
            chk.bad("R10.5", "extend|push on every element", "an element can be skipped: the loop can reach the next element without pushing", eb.file)
    ib = F.body(PRBC + "::into_iter")
    got = mirq.call_exprs(mirq.BodyQ(ib), drop=None)
    if got == [] or got == ["IntoIterator::into_iter(p1.0)"]:
        chk.ok("R10.5", "into_iter", "the inner vector's own iterator")
    else:
        chk.bad("R10.5", "into_iter", "PreResolvedByteCode::into_iter no longer hands out the inner vector in order: %s" % got, ib.file)

    chk.analysed = {"parse_functions": len(db["roots"]), "builder_paths": sum(len(v) for v in db["roots"].values()), "distinct_templates": len(distinct),
                    "vm_arms": len(vm.arms), "unsummarised_callees": {m: len(u) for m, u in db["unhandled"].items()}}
    return chk.finish(
        "Emission templates of all %d parse functions extracted by symbolic execution of their MIR over opaque children (%d builder paths, %d distinct templates), "
        "each checked by abstract execution with the stack-effect table extracted from the VM's own dispatch arms; resolver / VM jump-base agreement and the "
        "bounds-checked return value by operand expressions. Inductive: assumes well-formed children, proves the node." % (len(db["roots"]), sum(len(v) for v in db["roots"].values()), len(distinct)),
        ["rustc MIR + resolved callees", "symex summaries of Vec / iterator adapters (rules/symex.py)", "loops unrolled to two elements / one outer iteration over an arbitrary node"],
        ["default features", "programs are compiler output (hand-made CelByteCode is only bounds-checked)"],
        technique="symbolic execution of the parse functions' MIR into emission templates + abstract stack/label interpretation against the VM's extracted effect table")
