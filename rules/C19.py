"""C19 serialized programs behave like the original - structural clauses on the serde surface of Program."""
import re
import lib

ROOT = "rscel::program::Program"


def serde_closure(F):
    """ADTs reachable from Program through field types (rscel-local ADTs only)."""
    by_path = {a["path"]: a for a in F.adts.values() if a["pkg"] == "rscel"}
    seen, st = [], [ROOT]
    while st:
        p = st.pop()
        if p in seen or p not in by_path:
            continue
        seen.append(p)
        for v in by_path[p]["variants"]:
            if skipped(v["attrs"]):
                continue
            for f in v["fields"]:
                if skipped(f["attrs"]):
                    continue
                for q in by_path:
                    if re.search(r"(?<![\w:])" + re.escape(q) + r"(?![\w])", f["ty"]):
                        st.append(q)
    return [by_path[p] for p in seen]


def skipped(attrs):
    s = " ".join(attrs)
    return bool(re.search(r"serde\([^)]*\bskip(_serializing|_deserializing)?\b(?!_if)", s))


def run(chk, tier):
    F = lib.get_facts()
    chk.rule("R19.1", "positional formats: in every enum of Program's serde closure no serialized variant follows a skipped one (serde numbers variants differently for ser and de)")
    chk.rule("R19.2", "JSON-representable payloads: an f64 payload needs a codec that survives non-finite values")
    chk.rule("R19.3", "symmetric codecs: skip_serializing <=> skip_deserializing, serialize_with <=> deserialize_with")
    chk.rule("R19.4", "the binding entry points serialize the same Program type with the matching serde_json / bincode pair")
    adts = serde_closure(F)
    chk.analysed["serde_closure"] = [a["path"] for a in adts]
    chk.floor("R19.1", "ADTs in Program's serde closure", len(adts), 6)
    for a in adts:
        after_skip = None
        for v in a["variants"]:
            s = " ".join(v["attrs"])
            sk_s = bool(re.search(r"\bskip_serializing\b|\bskip\b", s))
            sk_d = bool(re.search(r"\bskip_deserializing\b|\bskip\b", s))
            key = "%s::%s" % (a["path"], v["name"])
            if a["kind"] == "Enum":
                if sk_s != sk_d:
                    chk.bad("R19.3", key, "variant skipped in one direction only", a["file"])
                if sk_s or sk_d:
                    after_skip = v["name"]
                    chk.ok("R19.1", key + "|skipped")
                elif after_skip:
                    chk.bad("R19.1", key, "serialized variant %s follows skipped variant %s: bincode cannot read it back (ser index != de index)" % (v["name"], after_skip),
                            "%s:%d" % (a["file"], a["line"]))
                else:
                    chk.ok("R19.1", key)
            has_ser = bool(re.search(r"serialize_with", s)); has_de = bool(re.search(r"deserialize_with", s))
            if re.search(r"\bserialize_with\b", re.sub(r"deserialize_with", "", s)) != None and not has_de:
                chk.bad("R19.3", key + "|codec", "serialize_with without deserialize_with", a["file"])
            for f in v["fields"]:
                fs = " ".join(f["attrs"]) + " " + s
                if skipped(f["attrs"]) or sk_s:
                    continue
                if re.search(r"\bf(64|32)\b", f["ty"]) and not re.search(r"\bwith\b|serialize_with", fs):
                    chk.bad("R19.2", "%s.%s" % (key, f["name"]),
                            "%s payload of %s uses serde's default float codec: serde_json writes NaN/inf as null and cannot read it back" % (f["ty"], key),
                            "%s:%d" % (a["file"], a["line"]))
                elif re.search(r"\bf(64|32)\b", f["ty"]):
                    chk.ok("R19.2", "%s.%s" % (key, f["name"]))
    # R19.6 representation attributes and R19.7 what may be left out
    chk.rule("R19.6", "every enum of the closure keeps serde's externally tagged representation (no untagged / tag / content): the variant is recoverable from the data in JSON "
                      "and by index in bincode (untagged needs deserialize_any, which bincode does not have, and merges variants with the same payload shape)")
    chk.rule("R19.7", "only values the compiler cannot put into a program are left out of the serialized form: the skipped variants are exactly the reviewed run-time-only ones")
    RUNTIME_ONLY = {
        "rscel::types::cel_value::CelValue::Message": "a protobuf message exists only as a bound value",
        "rscel::types::cel_value::CelValue::Enum": "a protobuf enum value comes from a bound message or a bound descriptor",
        "rscel::types::cel_value::CelValue::Dyn": "a user object exists only as a bound value",
    }
    for a in adts:
        cont = " ".join(a["attrs"])
        m_ = re.search(r"serde\([^)]*\b(untagged|tag\s*=|content\s*=)", cont)
        if a["kind"] == "Enum":
            if m_:
                chk.bad("R19.6", a["path"], "%s is serialized %s: variants with the same payload shape collapse into the first one when read back (e.g. every string-carrying error class becomes one), "
                                            "and positional formats cannot read it at all" % (a["path"], m_.group(1).strip(" =")), a["file"])
            else:
                chk.ok("R19.6", a["path"], "externally tagged")
        for v in a["variants"]:
            if a["kind"] != "Enum":
                continue
            key = "%s::%s" % (a["path"], v["name"])
            if skipped(v["attrs"]):
                if key in RUNTIME_ONLY:
                    chk.ok("R19.7", key, RUNTIME_ONLY[key])
                else:
                    chk.bad("R19.7", key, "%s is left out of the serialized form, but the compiler can put such a value into a program (folded constant or instruction): "
                                          "serializing that program fails or drops it" % key, a["file"])
    cv = [a for a in adts if a["path"] == "rscel::types::cel_value::CelValue"]
    if cv:
        ser = [v["name"] for v in cv[0]["variants"] if not skipped(v["attrs"])]
        need = ["Int", "UInt", "Float", "Bool", "String", "Bytes", "List", "Map", "Null", "Ident", "Type", "TimeStamp", "Duration", "ByteCode", "Err"]
        for n_ in need:
            if n_ in ser:
                chk.ok("R19.7", "CelValue::%s serialized" % n_)
            else:
                chk.bad("R19.7", "CelValue::%s serialized" % n_, "CelValue::%s can be a folded constant / instruction operand but is not part of the serialized form" % n_, cv[0]["file"])
    # R19.9 the budget of R19.8 assumes ONE nesting limit for the whole source text
    chk.rule("R19.9", "the nesting limit bounds the whole program: a parser created while parsing (format-string segments) continues its creator's nesting count, "
                      "so the depth of nested code blocks - and with it the depth of the JSON document - stays under the budget of R19.8")
    import common as _cm
    gp_ = [b_.path for b_ in F.bodies.values() if b_.pkg == "rscel" and b_.path.endswith("CelCompiler::<'l>::enter_nested")]
    if len(gp_) != 1:
        raise lib.MissingAnchor("enter_nested")
    _cm.parser_nesting_inherited(chk, F, "R19.9", gp_[0], "code blocks nested through that construct are not counted, so `string(`x15 around `f'{string(`x15 ..}'` compiles to 31..59 nested "
                                                         "blocks = 129..241 JSON levels: the program is written to JSON but cannot be read back (serde_json's recursion limit is 128)")
    # R19.8 JSON nesting budget
    chk.rule("R19.8", "JSON nesting budget: envelope + (parser nesting limit - 1) x (JSON levels per nested code block) + deepest constant <= 127, the deepest document serde_json reads back "
                      "(its recursion limit is 128): a program the compiler accepts can always be read again")
    by_path = {a["path"]: a for a in adts}

    def split_generic(ty):
        m_ = re.match(r"^([\w:]+)<(.*)>$", ty)
        if not m_:
            return ty, []
        head, inner = m_.groups()
        parts, depth_, cur = [], 0, ""
        for ch_ in inner:
            if ch_ == "<" or ch_ == "(":
                depth_ += 1
            elif ch_ == ">" or ch_ == ")":
                depth_ -= 1
            if ch_ == "," and depth_ == 0:
                parts.append(cur.strip())
                cur = ""
            else:
                cur += ch_
        if cur.strip():
            parts.append(cur.strip())
        return head, parts
    BC = "rscel::interp::types::bytecode::ByteCode"
    CODEVEC = "std::vec::Vec<%s>" % BC

    def walk(ty, stop_at_code, stack):
        """(deepest JSON nesting below a value of type ty without entering another code vector, deepest nesting at which a code vector opens or None)"""
        if ty == CODEVEC:
            return (0, 1) if stop_at_code else (0, None)       # the '[' of the nested block
        head, parts = split_generic(ty)
        if head in ("std::vec::Vec", "std::collections::HashSet", "std::collections::HashMap", "std::collections::BTreeMap"):
            sub = [walk(p_, stop_at_code, stack) for p_ in parts if not p_.startswith("std::hash") and "RandomState" not in p_]
            leaf = 1 + max([x[0] for x in sub] or [0])
            code = [1 + x[1] for x in sub if x[1] is not None]
            return leaf, (max(code) if code else None)
        if head in ("std::option::Option", "std::boxed::Box", "std::sync::Arc", "std::rc::Rc"):
            return walk(parts[0], stop_at_code, stack) if parts else (0, None)
        if ty.startswith("("):
            return 1, None
        a = by_path.get(head)
        if a is None:
            return 0, None            # scalars, strings, chrono values under the reviewed integer codecs (R19.5)
        if head in stack:
            return 0, None            # value recursion (List / Map of values): one level of source nesting each, lighter than a code block - see the text of the rule
        stack = stack + [head]
        leafs, codes = [0], []
        for v in a["variants"]:
            if skipped(v["attrs"]):
                continue
            fields = [f for f in v["fields"] if not skipped(f["attrs"])]
            named = any(not f["name"].isdigit() for f in fields)
            if a["kind"] == "Enum":
                if not fields:
                    continue                                  # unit variant: a string
                own = 1                                       # {"Variant": ...}
                if named or len(fields) > 1:
                    own += 1                                  # struct variant object / tuple variant array
            else:
                own = 0 if (len(fields) == 1 and not named) else 1    # newtype struct is transparent
            for f in fields:
                l_, c_ = walk(f["ty"], stop_at_code, stack)
                leafs.append(own + l_)
                if c_ is not None:
                    codes.append(own + c_)
        return max(leafs), (max(codes) if codes else None)
    try:
        env_leaf, env_code = walk(ROOT, True, [])
        # one element of a code vector: deepest constant (not entering a nested block), and the depth at which a nested block opens
        el_leaf, el_code = walk(BC, True, [])
        import mirq as _mq
        en = F.body("rscel::compiler::compiler::CelCompiler::<'l>::enter_nested")
        consts_ = sorted(set(c_[2] for c_ in _mq.BodyQ(en).const_compares() if isinstance(c_[2], int) and c_[2] > 1))
        if env_code is None or el_code is None or len(consts_) != 1:
            chk.bad("R19.8", "anchor", "could not derive the budget (envelope %s, block %s, nesting limit %s)" % (env_code, el_code, consts_), "")
        else:
            limit = consts_[0]
            worst = env_code + (limit - 1) * el_code + el_leaf
            detail = {"envelope": env_code, "levels per nested block": el_code, "deepest constant": el_leaf, "parser nesting limit": limit, "worst case": worst, "serde_json reads": 127}
            if worst <= 127:
                chk.ok("R19.8", "json depth budget", detail)
            else:
                chk.bad("R19.8", "json depth budget", "a program nested %d calls deep is accepted by the compiler and written as JSON %d levels deep (%d + %d x %d + %d), "
                                                      "but serde_json reads at most 127: it cannot be deserialized" % (limit - 1, worst, env_code, limit - 1, el_code, el_leaf),
                        "rscel/src/compiler/compiler.rs")
    except RecursionError:
        chk.bad("R19.8", "anchor", "type walk did not terminate", "")
    # the budget counts one nested block per nesting level: no emission template puts a block inside a block of the same node
    import ctemplates
    db_ = ctemplates.build_db(F)
    deep_ = []

    def nest_depth(items):
        d_ = 0
        for it_ in items:
            if it_.get("k") == "block":
                d_ = max(d_, nest_depth(it_["items"]))
            if "nested" in it_:
                d_ = max(d_, 1 + nest_depth(it_["nested"]))
        return d_
    n_nested = 0
    for root_, paths_ in db_["roots"].items():
        for p_ in paths_:
            nd = nest_depth(p_.get("items") or [])
            n_nested += 1 if nd else 0
            if nd > 1:
                deep_.append(root_)
    if deep_:
        chk.bad("R19.8", "one block per nesting level", "templates of %s nest a code block inside a code block of the same node: the budget per nesting level is larger than assumed" % sorted(set(deep_)), "rscel/src/compiler/compiler.rs")
    else:
        chk.ok("R19.8", "one block per nesting level", {"templates with a nested block": n_nested})
    # R19.5 declared codecs: the reviewed table of every non-default codec in the closure (a new / changed codec must be reviewed:
    # a narrower range makes serialization fail, an asymmetric hand-written codec reads back a different value)
    chk.rule("R19.5", "the only non-default codecs in Program's serde closure are the reviewed ones: TimeStamp = chrono ts_milliseconds (both directions), "
                      "Duration = serde_with DurationMilliSeconds<i64> (both directions); no container-level into / from / try_from / remote conversion and no hand-written Serialize / Deserialize impl")
    CODECS = {
        "rscel::types::cel_value::CelValue::TimeStamp": r'^with\s*=\s*"ts_milliseconds"$',
        "rscel::types::cel_value::CelValue::Duration": r'^serialize_with\s*=\s*"DurationMilliSeconds::<i64>::serialize_as",\s*deserialize_with\s*=\s*"DurationMilliSeconds::<i64>::deserialize_as"$',
    }
    seen_codecs = set()
    for a in adts:
        cont = " ".join(a["attrs"])
        for m_ in re.finditer(r"serde\(([^)]*)\)", cont):
            body_ = m_.group(1)
            if re.search(r"\b(into|from|try_from|remote|with|serialize_with|deserialize_with)\b", body_):
                chk.bad("R19.5", "%s|container codec" % a["path"], "%s converts through a hand-written representation (#[serde(%s)]): encoder and decoder are no longer derived from one definition and must be reviewed as a pair" % (a["path"], body_.strip()), a["file"])
        for v in a["variants"]:
            for where, attrs in [("%s::%s" % (a["path"], v["name"]), v["attrs"])] + [("%s::%s.%s" % (a["path"], v["name"], f["name"]), f["attrs"]) for f in v["fields"]]:
                for at in attrs:
                    for m_ in re.finditer(r"serde\((.*)\)\]?$", at, re.S):
                        body_ = re.sub(r"\s+", " ", m_.group(1)).strip()
                        if re.search(r"\b(with|serialize_with|deserialize_with|into|from|try_from|getter|bound|flatten|rename|alias|default)\b", body_):
                            want = CODECS.get(where)
                            seen_codecs.add(where)
                            if want and re.match(want, body_):
                                chk.ok("R19.5", where, body_)
                            else:
                                chk.bad("R19.5", where, "%s is serialized with #[serde(%s)], reviewed codec: %s (millisecond resolution over the whole representable range)" % (where, body_, want or "serde's derived default"), a["file"])
    for where in CODECS:
        if where not in seen_codecs:
            chk.bad("R19.5", where, "%s lost its declared millisecond codec" % where, "rscel/src/types/cel_value.rs")
    # hand-written Serialize / Deserialize impls on closure types
    closure_paths = set(a["path"] for a in adts)
    for im in F.impls:
        if im.get("pkg") != "rscel" or not im.get("of_trait"):
            continue
        tr = im.get("trait", "")
        if re.search(r"_serde::(Serialize|Deserialize)", tr) or re.search(r"^serde::(Serialize|Deserialize)", tr):
            selfty = im.get("self", "")
            if selfty in closure_paths and not any("automaticallyderived" in x.lower().replace("_", "") for x in im.get("attrs", [])):
                chk.bad("R19.5", "%s|manual %s" % (selfty, tr.split("::")[-1]), "%s implements %s by hand: not covered by the derived-codec argument" % (selfty, tr), im.get("file", ""))
    # conversions used by container-level codecs would show up as From/TryFrom<String> impls on closure types
    # R19.4 binding entry points
    want = [("rscel_python", r"py_cel_program::PyCelProgram::(add_serialized|serialize_to)_(json|bincode)$"),
            ("rscel_wasm", r"cel_program::WasmCelProgram::(add_serialized|serialize_to)_(json|bincode)$")]
    pairs = 0
    for pkg, rx in want:
        sers, des = set(), set()
        for b in F.find(rx, pkg):
            for i, t in b.calls():
                p = lib.callee_of(t)[1] or ""
                m = re.match(r"^(serde_json|bincode)::(to_string|to_vec|serialize|from_str|from_slice|deserialize)\b", p)
                if m:
                    (sers if m.group(2) in ("to_string", "to_vec", "serialize") else des).add(m.group(1))
        for fmt in ("serde_json", "bincode"):
            if fmt in sers and fmt in des:
                pairs += 1
                chk.ok("R19.4", "%s|%s" % (pkg, fmt))
            elif fmt in sers or fmt in des:
                chk.bad("R19.4", "%s|%s" % (pkg, fmt), "%s: %s used in one direction only" % (pkg, fmt), "")
    chk.floor("R19.4", "format pairs in the bindings", pairs, 4)
    return chk.finish(
        "serde surface of Program (ADT closure through field types, variant order, skip / codec attributes) from the compiler's ADT facts, and the "
        "codec pairs used by the python / wasm entry points. Decides positional safety and codec symmetry; does not decide behavioural equality of the "
        "round-tripped program.",
        ["serde_derive variant numbering (ser: all variants; de: non-skipped)", "serde_json float codec (non-finite -> null)"], ["default features"],
        technique="ADT/attribute rules over the serde closure")
