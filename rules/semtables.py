"""Semantic tables of the logical layer extracted by symbolic execution (symex) of CelValue::or / and / Not::not:
for every combination of the opaque predicates is_err(x) / is_truthy(x) on the operands the function's result.
Used by C05 (absorption rules, one truthiness)."""
import re, os
import lib, symex
from symex import U, render


class LogicPolicy(symex.Policy):
    loop_limit = 2
    max_paths = 400
    dedupe = False      # decision tables are read off the path conditions: never merge paths

    # private functions the rules read as atoms (their own tables are decided separately)
    ATOMS = ("type_prop", "holds_error", "enter_program", "reads_clock", "nested_deeper_than", "resolve_args", "call_macro", "callable_by_name", "checked_jump_target")

    def inline(self, path, body):
        if path.endswith("CelValue::error_prop_or") or "::{closure" in path:
            return True
        # a private helper (visible only inside its module) is part of the function that calls it - code split off for readability
        vis = str(body.d.get("vis", ""))
        name = path.rsplit("::", 1)[-1]
        return vis.startswith("Restricted") and "DefId(0:0 " not in vis and name not in self.ATOMS and not re.search(r"::get_\w+_by_name$", path)

    def stub(self, interp, st, path, c, args, t, caller):
        return None


def table(F, path, nargs):
    """list of (sorted predicate assignments {expr: 0/1}, result render) for each path of the function"""
    b = F.body(path)
    pol = LogicPolicy()
    it = symex.Interp(F, pol)
    args = [U("a", "CelValue"), U("b", "CelValue")][:nargs]
    outs = it.run(b, args)
    rows = []
    for st, ret in outs:
        preds = {}
        for c in st.cond:
            if c[0] == "eq":
                preds[c[1]] = c[2]
            elif c[0] == "ne":
                # bool switch: `ne (0,)` means 1
                preds[c[1]] = 1 if tuple(c[2]) == (0,) else ("not", tuple(c[2]))
        rows.append((preds, render(ret)))
    return rows, it


def classify(preds, who):
    """abstract class of operand `who` ('a'/'b') under predicate assignments: 'E' error, 'T' truthy, 'F' falsy, None = undetermined"""
    e = preds.get("CelValue::is_err(%s)" % who)
    t = preds.get("CelValueDyn::is_truthy(%s)" % who)
    if e == 1:
        return "E"
    if e == 0 and t == 1:
        return "T"
    if e == 0 and t == 0:
        return "F"
    if e is None and t is not None:
        return "T?" if t == 1 else "F?"
    return None


# ------------------------------------------------------------------------------------ VM arm semantics

class ArmPolicy(symex.Policy):
    max_paths = 3000
    dedupe = False

    def __init__(self, vm, stop):
        self.vm = vm
        self.stop = stop
        self.done = []

    def limit_for(self, body, blk):
        if body.path == self.vm.b.path and blk in self.stop:
            return 0
        return 4 + (1 if os.environ.get("VERIF_DEEP") == "1" else 0)       # counted arms: up to three (thorough: four) elements / entries

    def abandoned(self, st, body, blk):
        if body.path == self.vm.b.path and blk in self.stop:
            self.done.append(st)

    def inline(self, path, body):
        # private helpers of the interpreter module (e.g. a routine that pops the arguments of a call) belong to the arm that calls them;
        # the stack primitives and the public entry points are handled by stub() / stay opaque
        vis = str(body.d.get("vis", ""))
        return "::interp::interp::" in path and vis.startswith("Restricted") and "interp::interp)" in vis and \
            not re.search(r"::(run_raw|run_program|resolve_args|call_macro|call|callable_by_name|get_\w+_by_name|checked_jump_target|enter_program)$", path)

    def stub(self, interp, st, path, c, args, t, caller):
        m = re.search(r"InterpStack::<'a, 'b>::(pop|pop_val|pop_noresolve|pop_tryresolve|push|push_val)$", path)
        if m:
            k = m.group(1)
            if k.startswith("pop"):
                n = sum(1 for e in st.trace if e[0] == "pop") + 1
                st.event("pop", n, k)
                return [(st, symex.ok(U("pop%d" % n, "CelValue")))]
            st.event("push", render(args[1]))
            return [(st, symex.UNIT)]
        if path.endswith("Interpreter::<'a>::checked_jump_target"):
            st.event("jump", render(args[1]))
            return [(st, symex.ok(U("target", "usize")))]
        return None


def arm_paths(F, vm, name):
    """symbolic execution of one dispatch arm of run_raw from its first block until the dispatch loop is re-entered:
    list of (predicates, events) with events = ('pop', n, kind) / ('push', value) / ('jump', dist)"""
    stop = set(vm.dom)
    pol = ArmPolicy(vm, stop)
    it = symex.Interp(F, pol)
    st = symex.State()
    fid = st.fresh()
    st.frames[fid] = {vm.place["l"]: U("insn", "&ByteCode"), 1: U("self", "&Interpreter")}
    try:
        it.exec_from(st, fid, vm.b, vm.arms[name], 0)
    except symex.TooManyPaths:
        return None
    out = []
    for s2 in pol.done:
        preds = {}
        for c in s2.cond:
            if c[0] == "eq":
                preds[c[1]] = c[2]
            elif c[0] == "ne":
                preds[c[1]] = 1 if tuple(c[2]) == (0,) else ("not", tuple(c[2]))
            elif c[0] in ("variant", "variant-not"):
                preds["variant(%s)" % c[3]] = c[2] if c[0] == "variant" else ("not", tuple(c[2]))
        out.append((preds, [e for e in s2.trace if e[0] in ("pop", "push", "jump")]))
    return out


# ------------------------------------------------------------------------------------ binary operator tables of the value layer

def binop_table(F, op, meth):
    """decision table of `impl std::ops::<op> for CelValue` after widening: {(variant of left, variant of right): [(path predicates, result text)]}
    type_prop is replaced by an arbitrary pair (ta, tb) - its own table is C03 R03.7"""
    import symex
    CVT = "rscel::types::cel_value::CelValue"

    class OpPolicy(LogicPolicy):
        max_paths = 8000

        def stub(self, interp, st, path, c, args, t, caller):
            if path.endswith("CelValue::type_prop"):
                return [(st, ("tup", (symex.U("ta", CVT), symex.U("tb", CVT))))]
            return None
    ob = F.body("<rscel::types::cel_value::CelValue as std::ops::%s>::%s" % (op, meth))
    it = symex.Interp(F, OpPolicy())
    table = {}
    for st, r in it.run(ob, [symex.U("a", CVT), symex.U("b", CVT)]):
        rr = symex.render(r)
        if rr in ("a", "b"):
            continue
        va = [c[2] for c in st.cond if c[0] == "variant" and c[3] == "ta"]
        vb = [c[2] for c in st.cond if c[0] == "variant" and c[3] == "tb"]
        preds = tuple((c[2], str(c[3])) for c in st.cond if c[0] == "variant" and c[3] not in ("ta", "tb") and c[1] in ("Option", "Result"))
        table.setdefault((va[0] if va else "other", vb[0] if vb else "other"), []).append((preds, rr))
    return ob, table
