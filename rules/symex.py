"""symex: a path-enumerating symbolic interpreter over the MIR facts (static: nothing of /repo runs).

It executes one MIR body on symbolic arguments, inlining local callees chosen by a policy, applying hand-written
summaries for the std containers / iterators the builder code uses, and returning for every feasible path the final
state, the return value and an event trace.  Unknown enum values fork at `SwitchInt(discriminant(..))` and are refined on
each edge, so a value that was matched once keeps its variant.  Loops are bounded by a per-path block visit limit.

Value representation (immutable tuples):
  ("u", tag, ty)            unknown value (tag names its origin, ty its Rust type string when known)
  ("i", n)                  integer / bool / char constant
  ("s", text)               string constant
  ("unit",)
  ("adt", path, variant, fields|None, origin)   struct / enum value (fields None = variant known, payload unknown)
  ("tup", fields)
  ("seq", items)            Vec / array / slice with known items; an item ("splice", tag) stands for unknown-many items
  ("set", items)            HashSet (sorted tuple)
  ("iter", kind, payload)   iterator
  ("lref", fid, local, projs)   reference to a place of a live frame
  ("ptr", cell)             heap pointer
  ("clo", def_id, captures) closure value
  ("fnv", const)            function item
  ("call", path, args, ty)  opaque application of a function that is neither inlined nor summarised
  ("bin", op, a, b) / ("un", op, a) / ("pj", base, elem)   symbolic arithmetic / projection of an opaque value
"""
import re, collections, itertools
import lib

BUILTIN_ENUMS = {
    "std::option::Option": ["None", "Some"], "core::option::Option": ["None", "Some"],
    "std::result::Result": ["Ok", "Err"], "core::result::Result": ["Ok", "Err"],
    "std::ops::ControlFlow": ["Continue", "Break"], "core::ops::ControlFlow": ["Continue", "Break"],
    "std::ops::control_flow::ControlFlow": ["Continue", "Break"], "core::ops::control_flow::ControlFlow": ["Continue", "Break"],
}
OPTION, RESULT, CFLOW = "std::option::Option", "std::result::Result", "std::ops::ControlFlow"


class TooManyPaths(Exception):
    pass


class Unsupported(Exception):
    pass


def ty_head(ty):
    ty = (ty or "").strip()
    while ty.startswith("&"):
        ty = ty[1:].strip()
        if ty.startswith("mut "):
            ty = ty[4:].strip()
        if ty.startswith("'"):
            ty = ty.split(" ", 1)[1] if " " in ty else ty
    depth = 0
    for i, ch in enumerate(ty):
        if ch == "<":
            return ty[:i]
    return ty


def U(tag, ty=""):
    return ("u", tag, ty)


def I(n):
    return ("i", int(n))


UNIT = ("unit",)


def adt(path, variant, fields, origin=None):
    return ("adt", path, variant, None if fields is None else tuple(fields), origin)


def some(v):
    return adt(OPTION, "Some", (v,))


NONE = adt(OPTION, "None", ())


def ok(v):
    return adt(RESULT, "Ok", (v,))


def err(v):
    return adt(RESULT, "Err", (v,))


class State:
    __slots__ = ("frames", "heap", "n", "trace", "visits", "cond", "excl")

    def __init__(self):
        self.frames = {}
        self.heap = {}
        self.n = 0
        self.trace = ()
        self.visits = {}
        self.cond = ()
        self.excl = {}

    def copy(self):
        s = State()
        s.frames = {k: dict(v) for k, v in self.frames.items()}
        s.heap = dict(self.heap)
        s.n = self.n
        s.trace = self.trace
        s.visits = dict(self.visits)
        s.cond = self.cond
        s.excl = dict(self.excl)
        return s

    def fresh(self):
        self.n += 1
        return self.n

    def event(self, *e):
        self.trace = self.trace + (tuple(e),)


class Policy:
    """what to inline, what to stub, how to refine; subclass per analysis"""
    loop_limit = 3
    max_paths = 4000
    max_steps = 3000000
    max_depth = 24

    def stub(self, interp, state, path, callee, args, term, caller):
        """return list of (state, value) to replace the call, or None"""
        return None

    def inline(self, path, body):
        return False

    def refine(self, value, ty, variant):
        return None

    def pure(self, path):
        """opaque callee known not to write through its &mut arguments"""
        return True

    def limit_for(self, body, blk):
        return self.loop_limit

    dedupe = True

    def abandoned(self, st, body, blk):
        pass

    def trace_key(self, trace):
        return trace


class Interp:
    def __init__(self, facts, policy):
        self.F = facts
        self.policy = policy
        self.adt_by_id = {}
        self.adt_by_path = {}
        for k, a in facts.adts.items():
            if a.get("pkg") == "rscel_python":
                continue
            self.adt_by_id[a["id"]] = a
            self.adt_by_path[a["path"]] = a
        self.body_by_id = {b.id: b for b in facts.bodies.values() if b.pkg != "rscel_python"}
        self.paths = 0
        self.steps = 0
        self._body = None
        self.unhandled = collections.Counter()
        self.summaries = list(SUMMARIES)

    # ------------------------------------------------------------------ enum tables
    def variants_of(self, ty):
        h = ty_head(ty)
        if h in BUILTIN_ENUMS:
            return {i: n for i, n in enumerate(BUILTIN_ENUMS[h])}, h
        a = self.adt_by_path.get(h)
        if a and a["kind"] == "Enum":
            return {int(v["discr"]): v["name"] for v in a["variants"]}, h
        return None, h

    def discr_of(self, path, variant):
        if path in BUILTIN_ENUMS:
            return BUILTIN_ENUMS[path].index(variant)
        a = self.adt_by_path.get(path)
        if a:
            for v in a["variants"]:
                if v["name"] == variant:
                    return int(v["discr"]) if "discr" in v else 0
        return None

    # ------------------------------------------------------------------ places
    def read_place(self, st, fid, p):
        v = st.frames[fid].get(p["l"], U("uninit_%d" % p["l"], ""))
        for e in p.get("p", []):
            v = self.project(st, v, e, fid)
        return v

    def project(self, st, v, e, fid=None):
        if e == "deref":
            return self.deref(st, v)
        if isinstance(e, dict):
            if "f" in e:
                return self.field(v, e["f"])
            if "dc" in e:
                if v[0] == "adt" and v[2] is None:
                    return ("adt", v[1], e["dc"], None, v[4])
                if v[0] in ("u", "call", "pj"):
                    return ("pj", v, e["dc"])
                return v
            if "idx" in e:
                iv = st.frames[fid].get(e["idx"]) if fid is not None else None
                if v[0] == "seq" and iv and iv[0] == "i" and 0 <= iv[1] < len(v[1]):
                    return v[1][iv[1]]
                return ("pj", v, "[%s]" % (iv[1] if iv and iv[0] == "i" else "?"))
            if "cidx" in e:
                if v[0] == "seq":
                    k = e["cidx"]
                    k = len(v[1]) - k if e.get("from_end") else k
                    if 0 <= k < len(v[1]):
                        return v[1][k]
                return ("pj", v, "[c%d]" % e["cidx"])
        return ("pj", v, str(e))

    def field(self, v, f):
        k = v[0]
        if k == "adt":
            if v[3] is not None:
                if f < len(v[3]):
                    return v[3][f]
                return U("%s.%d" % (v[4], f)) if v[4] else U("field%d" % f)
            return ("pj", ("adt", v[1], v[2], None, v[4]), f) if v[4] is None else U("%s.%s.%d" % (v[4], v[2], f))
        if k == "tup":
            return v[1][f] if f < len(v[1]) else U("field%d" % f)
        if k == "u":
            return U("%s.%d" % (v[1], f))
        if k == "clo" and isinstance(f, int) and f < len(v[2]):
            return v[2][f]              # captured value number f of a closure
        return ("pj", v, f)

    def deref(self, st, v):
        k = v[0]
        if k == "lref":
            return self.read_place(st, v[1], {"l": v[2], "p": [_thaw(x) for x in v[3]]})
        if k == "ptr":
            return st.heap.get(v[1], U("heap%d" % v[1]))
        if k == "href":
            cur = st.heap.get(v[1], U("heap%d" % v[1]))
            for e in v[2]:
                cur = self.project(st, cur, _thaw(e))
            return cur
        if k == "u":
            return U(v[1], v[2].lstrip("&").replace("mut ", "", 1).strip() if v[2] else "")
        if k == "adt":
            p = self.find_ptr(v)
            if p is not None:
                return st.heap.get(p[1], U("heap"))
        # a reference to an opaque value is conflated with the value
        return v

    def find_ptr(self, v):
        if v[0] == "ptr":
            return v
        if v[0] in ("adt",) and v[3]:
            for x in v[3]:
                r = self.find_ptr(x)
                if r is not None:
                    return r
        return None

    def write_place(self, st, fid, p, val):
        projs = list(p.get("p", []))
        l = p["l"]
        if not projs:
            st.frames[fid][l] = val
            return
        base = st.frames[fid].get(l, U("uninit_%d" % l))
        st.frames[fid][l] = self.write_into(st, base, projs, val, fid)

    def write_into(self, st, base, projs, val, fid):
        if not projs:
            return val
        e, rest = projs[0], projs[1:]
        if e == "deref":
            if base[0] == "lref":
                tgt = {"l": base[2], "p": [_thaw(x) for x in base[3]] + rest}
                self.write_place(st, base[1], tgt, val)
                return base
            if base[0] == "ptr":
                cur = st.heap.get(base[1], U("heap%d" % base[1]))
                st.heap[base[1]] = self.write_into(st, cur, rest, val, fid)
                return base
            if base[0] == "adt":
                p = self.find_ptr(base)
                if p is not None:
                    cur = st.heap.get(p[1], U("heap"))
                    st.heap[p[1]] = self.write_into(st, cur, rest, val, fid)
                    return base
            return base   # write through an unknown pointer: not tracked
        if isinstance(e, dict) and "f" in e:
            f = e["f"]
            if base[0] == "adt":
                fields = list(base[3]) if base[3] is not None else []
                while len(fields) <= f:
                    fields.append(self.field(base, len(fields)))
                fields[f] = self.write_into(st, fields[f], rest, val, fid)
                return ("adt", base[1], base[2], tuple(fields), base[4])
            if base[0] == "tup":
                fields = list(base[1])
                while len(fields) <= f:
                    fields.append(U("field"))
                fields[f] = self.write_into(st, fields[f], rest, val, fid)
                return ("tup", tuple(fields))
            # unknown aggregate: materialise as a partial record that remembers where it came from
            fields = [self.field(base, i) for i in range(f + 1)]
            fields[f] = self.write_into(st, fields[f], rest, val, fid)
            return ("adt", "?record", "?", tuple(fields), _origin(base) if base[0] in ("u", "pj", "call") else None)
        if isinstance(e, dict) and "dc" in e:
            return self.write_into(st, base, rest, val, fid)
        if isinstance(e, dict) and ("idx" in e or "cidx" in e):
            if base[0] == "seq":
                k = e.get("cidx")
                if "idx" in e:
                    iv = st.frames[fid].get(e["idx"])
                    k = iv[1] if iv and iv[0] == "i" else None
                if k is not None and 0 <= k < len(base[1]):
                    items = list(base[1])
                    items[k] = self.write_into(st, items[k], rest, val, fid)
                    return ("seq", tuple(items))
            return base
        return base

    def abs_place(self, st, fid, p):
        """resolve a place through references to the frame-local place it denotes: (fid, local, projs) or None"""
        l = p["l"]
        projs = list(p.get("p", []))
        cur_f, cur_l, cur_p = fid, l, []
        i = 0
        while i < len(projs):
            e = projs[i]
            if e == "deref":
                v = self.read_place(st, cur_f, {"l": cur_l, "p": cur_p})
                if v[0] == "lref":
                    cur_f, cur_l, cur_p = v[1], v[2], [_thaw(x) for x in v[3]]
                elif v[0] == "ptr":
                    return ("heap", v[1], projs[i + 1:])
                else:
                    return None
            else:
                cur_p = cur_p + [e]
            i += 1
        return (cur_f, cur_l, cur_p)

    # ------------------------------------------------------------------ operands / rvalues
    def operand(self, st, fid, op):
        if "const" in op:
            c = op["const"]
            if "fn" in c:
                return ("fnv", c)
            if "int" in c:
                return I(c["int"])
            r = c.get("repr", "")
            m = re.match(r'^(?:const )?"(.*)"$', r, re.S)
            if m:
                return ("s", m.group(1))
            if c.get("ty") == "()":
                return UNIT
            if "static" in c:
                return U("static " + c["static"], c.get("ty", ""))
            mp = re.search(r"::promoted\[(\d+)\]", r)
            if mp and self._body is not None:
                pv = self.eval_promoted(st, self._body, int(mp.group(1)))
                if pv is not None:
                    return pv
            return U("const " + r[:60], c.get("ty", ""))
        p = op.get("copy") or op.get("move")
        return self.read_place(st, fid, p)

    def eval_promoted(self, st, body, n):
        proms = body.d.get("promoted") or []
        if n >= len(proms):
            return None
        blocks = proms[n]["blocks"]
        fid = st.fresh()
        st.frames[fid] = {}
        blk = 0
        for _ in range(32):
            b = blocks[blk]
            for s in b["stmts"]:
                if s["k"] == "assign":
                    self.write_place(st, fid, s["place"], self.rvalue(st, fid, None, s["rv"]))
            t = b["term"]
            if t is None or t["k"] == "return":
                return st.frames[fid].get(0)
            if t["k"] in ("goto", "drop", "assert"):
                blk = t["t"]
                continue
            return None
        return None

    def rvalue(self, st, fid, body, rv):
        k = rv["k"]
        if k == "use":
            return self.operand(st, fid, rv["op"])
        if k in ("ref", "rawptr"):
            p = rv["place"]
            # re-borrow through an existing reference: `&(*x)` is x itself
            projs = p.get("p", [])
            if projs and projs[-1] == "deref":
                inner = self.read_place(st, fid, {"l": p["l"], "p": projs[:-1]})
                return inner
            ap = self.abs_place(st, fid, p)
            if ap is None:
                # a field of something reached through an opaque pointer: conflate the reference with the value
                return self.read_place(st, fid, p)
            if ap[0] == "heap":
                return ("ptr", ap[1]) if not ap[2] else ("href", ap[1], tuple(_freeze(x) for x in ap[2]))
            return ("lref", ap[0], ap[1], tuple(_freeze(x) for x in ap[2]))
        if k == "cast":
            v = self.operand(st, fid, rv["op"])
            ck = rv.get("ck", "")
            if ck.startswith(("IntToInt", "FloatToInt", "IntToFloat", "FloatToFloat")) and v[0] != "i" and rv.get("from") != rv.get("to"):
                # keep value-changing conversions of symbolic numbers visible
                return ("un", "as %s" % rv.get("to"), v)
            return v
        if k == "binop":
            a = self.operand(st, fid, rv["a"])
            b = self.operand(st, fid, rv["b"])
            return self.binop(rv["op"], a, b)
        if k == "unop":
            a = self.operand(st, fid, rv["a"])
            if a[0] == "i":
                if rv["op"] == "Not":
                    return I(0 if a[1] else 1) if rv.get("aty") == "bool" else I(~a[1])
                if rv["op"] == "Neg":
                    return I(-a[1])
            if rv["op"] == "PtrMetadata":
                if a[0] == "seq":
                    return I(len(a[1])) if not any(x[0] == "splice" for x in a[1]) else ("un", "len", a)
                if a[0] == "lref":
                    tv = self.deref(st, a)
                    if tv[0] == "seq" and not any(x[0] == "splice" for x in tv[1]):
                        return I(len(tv[1]))
                return ("un", "len", a)
            return ("un", rv["op"], a)
        if k == "discr":
            v = self.read_place(st, fid, rv["place"])
            if v[0] == "adt" and v[2] is not None:
                d = self.discr_of(v[1], v[2])
                if d is not None:
                    return I(d)
            ap = self.abs_place(st, fid, rv["place"])
            return ("disc", ap, rv.get("ty", ""), v)
        if k == "agg":
            ops = [self.operand(st, fid, o) for o in rv["ops"]]
            ak = rv["ak"]
            if ak == "tuple":
                return ("tup", tuple(ops))
            if ak == "array":
                return ("seq", tuple(ops))
            if ak == "adt":
                a = self.adt_by_id.get(rv["adt"])
                path = a["path"] if a else rv["adt"]
                return ("adt", path, rv["variant"], tuple(ops), None)
            if ak == "closure":
                return ("clo", rv["def"], tuple(ops))
            if ak == "rawptr":
                return ops[0] if ops else U("rawptr")
            return U("agg " + ak)
        if k == "repeat":
            return U("repeat")
        if k == "nullop":
            return U("nullop " + rv.get("op", ""))
        if k == "box":
            return self.operand(st, fid, rv["op"])
        if k == "tls":
            return U("tls")
        return U("rv " + k)

    def binop(self, op, a, b):
        base = op.replace("WithOverflow", "").replace("Unchecked", "")
        if a[0] == "i" and b[0] == "i":
            x, y = a[1], b[1]
            r = None
            try:
                r = {"Add": x + y, "Sub": x - y, "Mul": x * y, "Eq": int(x == y), "Ne": int(x != y), "Lt": int(x < y), "Le": int(x <= y),
                     "Gt": int(x > y), "Ge": int(x >= y), "BitAnd": x & y, "BitOr": x | y, "BitXor": x ^ y,
                     "Div": (x // y if y else None), "Rem": (x % y if y else None), "Shl": x << y if 0 <= y < 64 else None, "Shr": x >> y if 0 <= y < 64 else None}.get(base)
            except Exception:
                r = None
            if r is not None:
                return ("tup", (I(r), I(0))) if "WithOverflow" in op else I(r)
        v = ("bin", base, a, b)
        return ("tup", (v, I(0))) if "WithOverflow" in op else v

    # ------------------------------------------------------------------ execution
    def run(self, body, args, state=None):
        self.paths = 0
        self.steps = 0
        st = state or State()
        return self.run_body(st, body, args, depth=0)

    def run_body(self, st, body, args, depth, captures=None):
        fid = st.fresh()
        fr = {}
        for i, a in enumerate(args):
            fr[i + 1] = a
        st.frames[fid] = fr
        out = []
        seen = set()
        for (s2, ret) in self.exec_from(st, fid, body, 0, depth):
            s2.frames.pop(fid, None)
            if depth > 0 and self.policy.dedupe:
                # paths through an inlined callee that leave the same caller-visible state are merged
                key = (ret, tuple(sorted((k, tuple(sorted(v.items()))) for k, v in s2.frames.items())), tuple(sorted(s2.heap.items())),
                       self.policy.trace_key(s2.trace))
                try:
                    if key in seen:
                        continue
                    seen.add(key)
                except TypeError:
                    pass
            out.append((s2, ret))
        return out

    def exec_from(self, st, fid, body, blk, depth):
        """iteratively execute from blk; returns list of (state, retval) for paths that return"""
        results = []
        work = [(st, blk)]
        while work:
            st, blk = work.pop()
            while True:
                self.steps += 1
                if self.steps > self.policy.max_steps:
                    raise TooManyPaths("step budget exhausted in " + body.path)
                key = (fid, blk)
                c = st.visits.get(key, 0) + 1
                st.visits[key] = c
                if c > self.policy.limit_for(body, blk):
                    self.policy.abandoned(st, body, blk)
                    break   # loop bound: abandon this path
                b = body.blocks[blk]
                self._body = body
                for s in b["stmts"]:
                    if s["k"] == "assign":
                        v = self.rvalue(st, fid, body, s["rv"])
                        self.write_place(st, fid, s["place"], v)
                    elif s["k"] == "setdiscr":
                        pass
                t = b["term"]
                if t is None:
                    break
                self._body = body
                k = t["k"]
                if k == "goto":
                    blk = t["t"]
                    continue
                if k in ("drop", "assert"):
                    blk = t["t"]
                    continue
                if k == "return":
                    if depth == 0:
                        self.paths += 1
                        if self.paths > self.policy.max_paths:
                            raise TooManyPaths(body.path)
                    results.append((st, st.frames[fid].get(0, UNIT)))
                    break
                if k == "switch":
                    d = self.operand(st, fid, t["discr"])
                    cases = [(int(c[0]), c[1]) for c in t["cases"]]
                    if d[0] == "i":
                        tgt = None
                        for cv, cb in cases:
                            if cv == d[1]:
                                tgt = cb
                        blk = tgt if tgt is not None else t["otherwise"]
                        continue
                    forks = self.fork_switch(st, fid, d, cases, t["otherwise"], body, blk)
                    if not forks:
                        break
                    for (s2, b2) in forks[1:]:
                        work.append((s2, b2))
                    st, blk = forks[0]
                    continue
                if k == "call":
                    outs = self.do_call(st, fid, body, t, depth)
                    nxt = t["t"]
                    if nxt is None:
                        break
                    conts = []
                    for (s2, val) in outs:
                        self.write_place(s2, fid, t["dest"], val)
                        conts.append((s2, nxt))
                    if not conts:
                        break
                    for c2 in conts[1:]:
                        work.append(c2)
                    st, blk = conts[0]
                    continue
                if k in ("unreachable", "resume", "terminate"):
                    break
                break
        return results

    def fork_switch(self, st, fid, d, cases, otherwise, body, blk):
        out = []
        if d[0] == "disc":
            _, ap, ty, cur = d
            vmap, head = self.variants_of(ty)
            seen = set()
            org = _origin(cur)
            known_not = st.excl.get(org, frozenset())
            for cv, cb in cases:
                seen.add(cv)
                name = vmap.get(cv) if vmap else None
                if name is not None and name in known_not:
                    continue        # this variant was excluded earlier on the path
                s2 = st.copy()
                if name is not None and ap is not None:
                    self.refine_place(s2, ap, head, name, cur)
                s2.cond = s2.cond + (("variant", _short(head), name if name is not None else cv, _origin(cur)),)
                out.append((s2, cb))
            rest = [n for v, n in (vmap or {}).items() if v not in seen and n not in known_not]
            if vmap is None or rest:
                s2 = st.copy()
                if vmap is not None and len(rest) == 1 and ap is not None:
                    self.refine_place(s2, ap, head, rest[0], cur)
                    s2.cond = s2.cond + (("variant", _short(head), rest[0], _origin(cur)),)
                else:
                    s2.cond = s2.cond + (("variant-not", _short(head), tuple(sorted(str(vmap.get(v, v)) if vmap else str(v) for v in seen)), _origin(cur)),)
                    if vmap and org:
                        s2.excl[org] = frozenset(known_not | set(vmap.get(v) for v in seen if vmap.get(v)))
                out.append((s2, otherwise))
            return out
        # unknown integer / bool: a pure opaque predicate decided earlier on this path keeps its value
        rd = _render(d)
        for c in st.cond:
            if c[0] == "eq" and c[1] == rd:
                tgt = [cb for cv, cb in cases if cv == c[2]]
                return [(st, tgt[0] if tgt else otherwise)]
            if c[0] == "ne" and c[1] == rd:
                left = [(cv, cb) for cv, cb in cases if cv not in c[2]]
                if not left:
                    return [(st, otherwise)]
        for cv, cb in cases:
            s2 = st.copy()
            s2.cond = s2.cond + (("eq", _render(d), cv),)
            out.append((s2, cb))
        s2 = st.copy()
        s2.cond = s2.cond + (("ne", _render(d), tuple(cv for cv, _ in cases)),)
        out.append((s2, otherwise))
        return out

    def refine_place(self, st, ap, head, name, cur):
        new = self.policy.refine(cur, head, name)
        if new is None:
            origin = None
            if cur[0] == "u":
                origin = cur[1]
            elif cur[0] == "adt":
                origin = cur[4]
            elif cur[0] in ("call", "pj", "bin"):
                origin = _render(cur)
            new = ("adt", head, name, None, origin)
        if ap[0] == "heap":
            curv = st.heap.get(ap[1], U("heap"))
            st.heap[ap[1]] = self.write_into(st, curv, list(ap[2]), new, None)
        else:
            self.write_place(st, ap[0], {"l": ap[1], "p": [(_thaw(x)) for x in ap[2]]}, new)

    def fork_variants(self, st, val, ty):
        """force a fork over the variants of an unknown enum value; returns list of (state, refined value)"""
        if val[0] == "adt" and val[2] is not None:
            return [(st, val)]
        vmap, head = self.variants_of(ty)
        if not vmap:
            return [(st, val)]
        out = []
        for d, name in sorted(vmap.items()):
            s2 = st.copy()
            new = self.policy.refine(val, head, name)
            if new is None:
                origin = val[1] if val[0] == "u" else _render(val)
                new = ("adt", head, name, None, origin)
            s2.cond = s2.cond + (("variant", _short(head), name, _origin(val)),)
            out.append((s2, new))
        return out

    # ------------------------------------------------------------------ calls
    def do_call(self, st, fid, body, t, depth):
        f = t["func"]
        args = [self.operand(st, fid, a) for a in t["args"]]
        c = f.get("const")
        if c and "fn" in c:
            return self.call_const(st, c, args, t, body, depth)
        fv = self.operand(st, fid, f)
        return self.call_value(st, fv, args, t, body, depth)

    def call_value(self, st, fv, args, t, body, depth):
        if fv[0] == "fnv":
            return self.call_const(st, fv[1], args, t, body, depth)
        if fv[0] == "clo":
            return self.call_closure(st, fv, args, depth, t)
        if fv[0] == "lref":
            return self.call_value(st, self.deref(st, fv), args, t, body, depth)
        self.unhandled["indirect:" + str(fv[0])] += 1
        return [(st, ("call", "indirect", tuple(args), t.get("dty", "")))]

    def call_closure(self, st, clo, args, depth, t=None):
        b = self.body_by_id.get(clo[1])
        if b is None or depth > self.policy.max_depth:
            return [(st, ("call", "closure", tuple(args), ""))]
        # closure bodies take (env, args...) ; Fn::call passes the arguments as one tuple
        return self.run_body(st, b, [clo] + list(args), depth + 1)

    def call_const(self, st, c, args, t, body, depth):
        path = c.get("res_path", c["fn_path"])
        fnpath = c["fn_path"]
        # Fn* trait calls: receiver is the callable, second operand the argument tuple
        if re.search(r"::(Fn|FnMut|FnOnce)::(call|call_mut|call_once)$", fnpath) or re.search(r"::(Fn|FnMut|FnOnce)<.*>>::(call|call_mut|call_once)$", fnpath):
            fv = args[0]
            while fv[0] == "lref":
                fv = self.deref(st, fv)
            tup = args[1] if len(args) > 1 else ("tup", ())
            real = list(tup[1]) if tup[0] == "tup" else [tup]
            if fv[0] in ("clo", "fnv"):
                return self.call_value(st, fv, real, t, body, depth)
        r = self.policy.stub(self, st, path, c, args, t, body)
        if r is not None:
            return r
        for rx, h in self.summaries:
            if rx.search(path) or rx.search(fnpath):
                r = h(self, st, path, c, args, t, depth)
                if r is not None:
                    return r
        rid = c.get("res", c["fn"])
        b = self.body_by_id.get(rid)
        if b is not None and b.kind == "closure" and False:
            pass
        if b is not None and depth < self.policy.max_depth and self.policy.inline(path, b):
            return self.run_body(st, b, args, depth + 1)
        # opaque
        self.unhandled[path] += 1
        if not self.policy.pure(path):
            for a in args:
                if a[0] == "lref":
                    self.write_place(st, a[1], {"l": a[2], "p": [_thaw(x) for x in a[3]]}, U("clobbered by " + _short(path)))
        shown = []
        for a in args:
            tv = _target(self, st, a) if a[0] in ("lref", "ptr") else a
            shown.append(tv if tv[0] in ("u", "i", "s", "call", "pj", "bin", "un", "adt", "tup", "seq", "label") else a)
        # an opaque callee that takes `&mut x` may change x: afterwards x is "the callee applied to the old x and the other arguments"
        atys = t.get("atys") or []
        for i, a in enumerate(args):
            if i < len(atys) and atys[i].startswith("&mut ") and a[0] == "lref" and not atys[i].startswith("&mut dyn "):
                self.write_place(st, a[1], {"l": a[2], "p": [_thaw(x) for x in a[3]]}, ("call", _short(path) + "!", tuple(shown), atys[i][5:]))
        return [(st, ("call", _short(path), tuple(shown), t.get("dty", "")))]


# ------------------------------------------------------------------------------------ helpers

def _origin(v):
    if v[0] == "u":
        return v[1]
    if v[0] == "adt":
        return v[4] or ""
    return _render(v)[:160]


def _freeze(e):
    if isinstance(e, dict):
        return tuple(sorted(e.items()))
    return e


def _thaw(e):
    if isinstance(e, tuple) and e and isinstance(e[0], tuple):
        return dict(e)
    return e


def _short(path):
    import mirq
    return mirq.short_callee(path)


def _render(v, depth=0):
    """compact printable form of a value"""
    if depth > 12:
        return "..."
    k = v[0]
    if k == "u":
        return v[1]
    if k == "i":
        return str(v[1])
    if k == "s":
        return repr(v[1])
    if k == "unit":
        return "()"
    if k == "adt":
        nm = "%s::%s" % (v[1].split("::")[-1], v[2])
        if v[3] is None:
            return nm + ("{?%s}" % v[4] if v[4] else "{?}")
        return nm + ("(%s)" % ", ".join(_render(x, depth + 1) for x in v[3]) if v[3] else "")
    if k == "tup":
        return "(%s)" % ", ".join(_render(x, depth + 1) for x in v[1])
    if k == "seq":
        return "[%s]" % ", ".join(_render(x, depth + 1) for x in v[1])
    if k == "set":
        return "{%s}" % ", ".join(_render(x, depth + 1) for x in v[1])
    if k == "map":
        return "{%s}" % ", ".join("%s: %s" % (_render(a, depth + 1), _render(b, depth + 1)) for a, b in v[1])
    if k == "call":
        return "%s(%s)" % (v[1], ", ".join(_render(x, depth + 1) for x in v[2]))
    if k == "bin":
        return "%s(%s, %s)" % (v[1], _render(v[2], depth + 1), _render(v[3], depth + 1))
    if k == "un":
        return "%s(%s)" % (v[1], _render(v[2], depth + 1))
    if k == "pj":
        return "%s.%s" % (_render(v[1], depth + 1), v[2])
    if k == "href":
        return "&heap%d%s" % (v[1], "".join("." + str(_thaw(x).get("f", "?")) if isinstance(_thaw(x), dict) else "*" for x in v[2]))
    if k == "lref":
        return "&_%d%s" % (v[2], "".join("." + str(_thaw(x).get("f", "?")) if isinstance(_thaw(x), dict) else "*" for x in v[3]))
    if k == "splice":
        return "*" + str(v[1])
    if k == "label":
        return "L%s" % v[1]
    if k == "disc":
        return "discr(%s)" % _render(v[3], depth + 1)
    if k == "clo":
        return "closure#%s" % v[1].rsplit("#", 1)[-1].rstrip("}")
    if k == "fnv":
        return "fn " + _short(v[1].get("res_path", v[1]["fn_path"]))
    if k == "iter":
        return "iter:%s" % v[1]
    return str(v)[:80]


render = _render


def deep(st, v, depth=0):
    """v with every heap pointer replaced by the value it points to (for reporting results that hold boxes / vectors)"""
    if depth > 16 or not isinstance(v, tuple) or not v:
        return v
    k = v[0]
    if k == "ptr":
        return deep(st, st.heap.get(v[1], U("heap")), depth + 1)
    if k == "adt":
        if v[3] is None:
            return v
        if v[1].endswith("::Box") and len(v[3]) == 1:
            return deep(st, v[3][0], depth + 1)
        return (k, v[1], v[2], tuple(deep(st, x, depth + 1) for x in v[3])) + tuple(v[4:])
    if k in ("tup", "seq", "set"):
        return (k, tuple(deep(st, x, depth + 1) for x in v[1])) + tuple(v[2:])
    if k == "call":
        return (k, v[1], tuple(deep(st, x, depth + 1) for x in v[2])) + tuple(v[3:])
    if k == "un":
        return (k, v[1], deep(st, v[2], depth + 1)) + tuple(v[3:])
    if k == "bin":
        return (k, v[1], deep(st, v[2], depth + 1), deep(st, v[3], depth + 1)) + tuple(v[4:])
    return v


# ------------------------------------------------------------------------------------ std summaries
# each handler(interp, st, path, callee, args, term, depth) -> list[(state, value)] or None (= not applicable)

def _target(interp, st, v):
    """follow references to the value they denote"""
    n = 0
    while v[0] in ("lref", "ptr", "href") and n < 8:
        v = interp.deref(st, v)
        n += 1
    return v


def _store(interp, st, ref, val):
    if ref[0] == "lref":
        interp.write_place(st, ref[1], {"l": ref[2], "p": [_thaw(x) for x in ref[3]]}, val)
        return True
    if ref[0] == "ptr":
        st.heap[ref[1]] = val
        return True
    if ref[0] == "href":
        st.heap[ref[1]] = interp.write_into(st, st.heap.get(ref[1], U("heap%d" % ref[1])), [_thaw(x) for x in ref[2]], val, None)
        return True
    return False


def _as_items(interp, st, v):
    """items of a Vec / array / slice / iterator-of-known-items value, or None"""
    v = _target(interp, st, v)
    if v[0] == "seq":
        return list(v[1])
    if v[0] == "iter" and v[1] == "seq":
        return list(v[2][0][v[2][1]:])
    if v[0] in ("u", "pj", "call"):
        return [("splice", _render(v))]
    if v[0] == "adt":
        p = interp.find_ptr(v)
        if p is not None:
            return _as_items(interp, st, st.heap.get(p[1], U("heap")))
    return None


def s_vec_new(I_, st, path, c, args, t, depth):
    return [(st, ("seq", ()))]


def s_vec_push(I_, st, path, c, args, t, depth):
    cur = _target(I_, st, args[0])
    items = _as_items(I_, st, cur)
    if items is None:
        return None
    x = args[1]
    if path.endswith("push_str") and x[0] in ("lref", "ptr"):
        x = _target(I_, st, x)
    _store(I_, st, args[0], ("seq", tuple(items) + (x,)))
    return [(st, UNIT)]


def s_vec_pop(I_, st, path, c, args, t, depth):
    items = _as_items(I_, st, args[0])
    if items is None or any(x[0] == "splice" for x in items):
        return None
    if not items:
        return [(st, NONE)]
    _store(I_, st, args[0], ("seq", tuple(items[:-1])))
    return [(st, some(items[-1]))]


def s_len(I_, st, path, c, args, t, depth):
    v = _target(I_, st, args[0])
    if v[0] == "seq" and not any(x[0] == "splice" for x in v[1]):
        return [(st, I(len(v[1])))]
    if v[0] == "seq":
        return [(st, ("un", "len", v))]
    return None


def s_is_empty(I_, st, path, c, args, t, depth):
    v = _target(I_, st, args[0])
    if v[0] == "seq" and not any(x[0] == "splice" for x in v[1]):
        return [(st, I(int(len(v[1]) == 0)))]
    return None


RANGE_BOUND = 4


def _range_iter(tv):
    """Range { start, end } with a symbolic end: an iterator of unknown length, explored up to RANGE_BOUND elements"""
    if tv[0] == "adt" and re.search(r"ops::(range::)?Range$", tv[1]) and tv[3] and len(tv[3]) == 2:
        a, b = tv[3]
        if a[0] == "i" and b[0] == "i":
            return ("iter", "seq", (tuple(I(x) for x in range(a[1], min(b[1], a[1] + 64))), 0))
        return ("iter", "urange", (_render(b), 0))
    return None


def s_into_iter(I_, st, path, c, args, t, depth):
    v = args[0]
    tv = _target(I_, st, v)
    if tv[0] == "iter":
        return [(st, tv)]
    r = _range_iter(tv)
    if r is not None:
        return [(st, r)]
    items = _as_items(I_, st, v)
    if items is None:
        if tv[0] == "set":
            return [(st, ("iter", "seq", (tuple(tv[1]), 0)))]
        return None
    byref = v[0] == "lref"
    return [(st, ("iter", "seq", (tuple(items), 0)))]


def s_iter_adapter(kind):
    def h(I_, st, path, c, args, t, depth):
        it = _target(I_, st, args[0])
        if it[0] != "iter":
            r = _range_iter(it)
            if r is not None:
                it = r
        if it[0] != "iter":
            items = _as_items(I_, st, args[0])
            if items is None:
                return None
            it = ("iter", "seq", (tuple(items), 0))
        if kind == "rev":
            items = iter_drain_static(it)
            if items is None:
                return None
            return [(st, ("iter", "seq", (tuple(reversed(items)), 0)))]
        if kind == "chain":
            other = _target(I_, st, args[1])
            if other[0] != "iter":
                items = _as_items(I_, st, args[1])
                if items is None:
                    return None
                other = ("iter", "seq", (tuple(items), 0))
            return [(st, ("iter", "chain", (it, other)))]
        if kind == "map":
            return [(st, ("iter", "map", (it, args[1])))]
        if kind == "flatten":
            return [(st, ("iter", "flat", (it, None)))]
        if kind == "enumerate":
            return [(st, ("iter", "enum", (it, 0)))]
        if kind in ("cloned", "copied", "by_ref", "peekable", "fuse"):
            return [(st, it)]
        return None
    return h


def iter_drain_static(it):
    """items of an iterator that needs no closure calls, else None"""
    k = it[1]
    if k == "seq":
        return list(it[2][0][it[2][1]:])
    if k == "chain":
        a = iter_drain_static(it[2][0])
        b = iter_drain_static(it[2][1])
        return None if a is None or b is None else a + b
    return None


def iter_next(I_, st, it, depth):
    """advance a symbolic iterator: list of (state, new_iter, item|None)"""
    k = it[1]
    if k == "seq":
        items, pos = it[2]
        if pos < len(items):
            return [(st, ("iter", "seq", (items, pos + 1)), items[pos])]
        return [(st, it, None)]
    if k == "chain":
        a, b = it[2]
        out = []
        for (s2, a2, x) in iter_next(I_, st, a, depth):
            if x is not None:
                out.append((s2, ("iter", "chain", (a2, b)), x))
            else:
                for (s3, b2, y) in iter_next(I_, s2, b, depth):
                    out.append((s3, ("iter", "chain", (a2, b2)), y))
        return out
    if k == "map":
        inner, clo = it[2]
        out = []
        for (s2, in2, x) in iter_next(I_, st, inner, depth):
            if x is None:
                out.append((s2, ("iter", "map", (in2, clo)), None))
            elif x[0] == "splice":
                out.append((s2, ("iter", "map", (in2, clo)), ("splice", "map(%s)" % x[1])))
            else:
                cv = _target(I_, s2, clo)
                if cv[0] == "clo":
                    for (s3, r) in I_.call_closure(s2, cv, [x], depth + 1):
                        out.append((s3, ("iter", "map", (in2, clo)), r))
                elif cv[0] == "fnv":
                    for (s3, r) in I_.call_const(s2, cv[1], [x], {"dty": "", "args": [], "atys": []}, None, depth + 1):
                        out.append((s3, ("iter", "map", (in2, clo)), r))
                else:
                    out.append((s2, ("iter", "map", (in2, clo)), ("call", "map-fn", (x,), "")))
        return out
    if k == "flat":
        inner, cur = it[2]
        out = []
        if cur is not None:
            for (s2, c2, x) in iter_next(I_, st, cur, depth):
                if x is not None:
                    out.append((s2, ("iter", "flat", (inner, c2)), x))
                else:
                    out.extend(iter_next(I_, s2, ("iter", "flat", (inner, None)), depth))
            return out
        for (s2, in2, x) in iter_next(I_, st, inner, depth):
            if x is None:
                out.append((s2, ("iter", "flat", (in2, None)), None))
            elif x[0] == "splice":
                out.append((s2, ("iter", "flat", (in2, None)), ("splice", "flatten(%s)" % x[1])))
            else:
                sub = _target(I_, s2, x)
                if sub[0] != "iter":
                    items = _as_items(I_, s2, x)
                    sub = ("iter", "seq", (tuple(items or ()), 0))
                out.extend(iter_next(I_, s2, ("iter", "flat", (in2, sub)), depth))
        return out
    if k == "urange":
        bound, n = it[2]
        out = []
        s_end = st.copy()
        s_end.cond = s_end.cond + (("eq", "len(%s)" % bound, n),)
        out.append((s_end, it, None))
        if n < RANGE_BOUND:
            out.append((st, ("iter", "urange", (bound, n + 1)), ("u", "idx%d" % n, "")))
        return out
    if k == "enum":
        inner, n = it[2]
        out = []
        for (s2, in2, x) in iter_next(I_, st, inner, depth):
            out.append((s2, ("iter", "enum", (in2, n + 1)), None if x is None else ("tup", (I(n), x))))
        return out
    return [(st, it, ("splice", "iter?"))]


def s_next(I_, st, path, c, args, t, depth):
    ref = args[0]
    it = _target(I_, st, ref)
    if it[0] != "iter":
        return None
    out = []
    for (s2, it2, x) in iter_next(I_, st, it, depth):
        _store(I_, s2, ref, it2)
        out.append((s2, NONE if x is None else some(x)))
    return out


def drain(I_, st, it, depth, limit=64):
    """all items of an iterator: list of (state, items)"""
    res = []
    work = [(st, it, [])]
    while work:
        s, i, acc = work.pop()
        if len(acc) > limit:
            res.append((s, acc))
            continue
        for (s2, i2, x) in iter_next(I_, s, i, depth):
            if x is None:
                res.append((s2, acc))
            elif x[0] == "splice":
                # the splice stands for the rest of this source; keep draining what follows
                work.append((s2, _skip_splice(i2), acc + [x]))
            else:
                work.append((s2, i2, acc + [x]))
    return res


def _skip_splice(it):
    return it


def s_collect(I_, st, path, c, args, t, depth):
    it = _target(I_, st, args[0])
    if it[0] != "iter":
        items = _as_items(I_, st, args[0])
        if items is None:
            return None
        it = ("iter", "seq", (tuple(items), 0))
    dty = t.get("dty", "") if isinstance(t, dict) else ""
    out = []
    h0 = ty_head(dty)
    if h0 in ("std::result::Result", "core::result::Result", "std::option::Option", "core::option::Option"):
        # collecting into Result / Option pulls element by element and stops at the first Err / None (later elements are never produced)
        good, bad = ("Ok", "Err") if "Result" in h0 else ("Some", "None")
        res, work, fine = [], [(st, it, [])], True
        while work and fine:
            s, i, acc = work.pop()
            if len(acc) > 64:
                fine = False
                break
            for (s2, i2, x) in iter_next(I_, s, i, depth):
                if x is None:
                    res.append((s2, adt(RESULT if good == "Ok" else OPTION, good, (("seq", tuple(acc)),))))
                    continue
                if x[0] == "splice":
                    fine = False
                    break
                for (s3, v) in I_.fork_variants(s2, x, h0 + "<T>"):
                    if v[0] == "adt" and v[2] == good:
                        work.append((s3, i2, acc + [I_.field(v, 0)]))
                    elif v[0] == "adt" and v[2] == bad:
                        res.append((s3, v if bad == "None" else adt(RESULT, "Err", (I_.field(v, 0),))))
                    else:
                        fine = False
        if fine:
            return res
    for (s2, items) in drain(I_, st, it, depth):
        v = ("seq", tuple(items))
        h = ty_head(dty)
        if h in ("std::result::Result", "core::result::Result", "std::option::Option", "core::option::Option"):
            good = "Ok" if "Result" in h else "Some"
            if all(x[0] == "adt" and x[2] == good and x[3] for x in items):
                out.append((s2, adt(RESULT if good == "Ok" else OPTION, good, (("seq", tuple(x[3][0] for x in items)),))))
                continue
            bad_ = [x for x in items if x[0] == "adt" and x[2] in ("Err", "None")]
            if bad_:
                out.append((s2, bad_[0]))
                continue
        wrapped = I_.policy.collect_into(I_, s2, h, dty, v) if hasattr(I_.policy, "collect_into") else None
        out.append((s2, wrapped if wrapped is not None else v))
    return out


def s_unzip(I_, st, path, c, args, t, depth):
    it = _target(I_, st, args[0])
    if it[0] != "iter":
        return None
    out = []
    for (s2, items) in drain(I_, st, it, depth):
        a, b = [], []
        for x in items:
            if x[0] == "tup" and len(x[1]) == 2:
                a.append(x[1][0])
                b.append(x[1][1])
            else:
                a.append(("pj", x, 0))
                b.append(("pj", x, 1))
        out.append((s2, ("tup", (("seq", tuple(a)), ("seq", tuple(b))))))
    return out


def s_extend(I_, st, path, c, args, t, depth):
    cur = _as_items(I_, st, args[0])
    if cur is None:
        return None
    src = _target(I_, st, args[1])
    if src[0] != "iter":
        items = _as_items(I_, st, args[1])
        if items is None:
            return None
        src = ("iter", "seq", (tuple(items), 0))
    out = []
    for (s2, items) in drain(I_, st, src, depth):
        _store(I_, s2, args[0], ("seq", tuple(cur) + tuple(items)))
        out.append((s2, UNIT))
    return out


def s_reverse(I_, st, path, c, args, t, depth):
    items = _as_items(I_, st, args[0])
    if items is None:
        return None
    if any(x[0] == "splice" for x in items):
        items = [("splice", "rev(%s)" % x[1]) if x[0] == "splice" else x for x in items]
    _store(I_, st, args[0], ("seq", tuple(reversed(items))))
    return [(st, UNIT)]


def s_slice_pick(kind):
    def h(I_, st, path, c, args, t, depth):
        items = _as_items(I_, st, args[0])
        if items is None or any(x[0] == "splice" for x in items):
            return None
        if not items:
            return [(st, NONE)]
        if kind == "first":
            return [(st, some(items[0]))]
        if kind == "last":
            return [(st, some(items[-1]))]
        if kind == "split_last":
            return [(st, some(("tup", (items[-1], ("seq", tuple(items[:-1]))))))]
        if kind == "split_first":
            return [(st, some(("tup", (items[0], ("seq", tuple(items[1:]))))))]
        return None
    return h


def s_identity(I_, st, path, c, args, t, depth):
    return [(st, args[0])]


def s_clone(I_, st, path, c, args, t, depth):
    return [(st, _target(I_, st, args[0]))]


def s_try_branch(I_, st, path, c, args, t, depth):
    v = args[0]
    ty = (t.get("atys") or [""])[0]
    out = []
    for (s2, r) in I_.fork_variants(st, v, ty):
        if r[0] == "adt" and r[2] in ("Ok", "Some"):
            out.append((s2, adt(CFLOW, "Continue", (I_.field(r, 0),))))
        elif r[0] == "adt" and r[2] == "Err":
            out.append((s2, adt(CFLOW, "Break", (adt(RESULT, "Err", (I_.field(r, 0),)),))))
        elif r[0] == "adt" and r[2] == "None":
            out.append((s2, adt(CFLOW, "Break", (NONE,))))
        else:
            out.append((s2, U("try-branch", t.get("dty", ""))))
    return out


def s_from_residual(I_, st, path, c, args, t, depth):
    v = args[0]
    if v[0] == "adt" and v[2] == "Err":
        return [(st, adt(RESULT, "Err", (I_.field(v, 0),)))]
    if v[0] == "adt" and v[2] == "None":
        return [(st, NONE)]
    return [(st, U("residual", t.get("dty", "")))]


def s_box_new(I_, st, path, c, args, t, depth):
    cell = st.fresh()
    st.heap[cell] = args[0]
    return [(st, adt("std::boxed::Box", "Box", (("ptr", cell),)))]


def s_malloc(I_, st, path, c, args, t, depth):
    cell = st.fresh()
    st.heap[cell] = U("uninit-heap")
    return [(st, ("ptr", cell))]


def s_into_vec(I_, st, path, c, args, t, depth):
    items = _as_items(I_, st, args[0])
    if items is None:
        return None
    return [(st, ("seq", tuple(items)))]


def s_set_new(I_, st, path, c, args, t, depth):
    return [(st, ("set", ()))]


def s_set_insert(I_, st, path, c, args, t, depth):
    cur = _target(I_, st, args[0])
    if cur[0] == "set":
        items = cur[1]
    elif cur[0] in ("u", "pj"):
        items = (("splice", _render(cur)),)
    else:
        return None
    x = _target(I_, st, args[1]) if args[1][0] == "lref" else args[1]
    if x not in items:
        items = tuple(sorted(items + (x,), key=repr))
    _store(I_, st, args[0], ("set", items))
    return [(st, U("inserted", "bool"))]


def s_set_iter(I_, st, path, c, args, t, depth):
    cur = _target(I_, st, args[0])
    if cur[0] == "set":
        return [(st, ("iter", "seq", (tuple(cur[1]), 0)))]
    if cur[0] in ("u", "pj"):
        return [(st, ("iter", "seq", ((("splice", _render(cur)),), 0)))]
    return None


def s_option_unwrap(I_, st, path, c, args, t, depth):
    v = args[0]
    if v[0] == "adt" and v[2] in ("Some", "Ok"):
        return [(st, I_.field(v, 0))]
    return None


def s_mem_replace(I_, st, path, c, args, t, depth):
    old = _target(I_, st, args[0])
    _store(I_, st, args[0], args[1])
    return [(st, old)]


def s_mem_take(I_, st, path, c, args, t, depth):
    old = _target(I_, st, args[0])
    _store(I_, st, args[0], U("default"))
    return [(st, old)]



def _as_iter(I_, st, v):
    it = _target(I_, st, v)
    if it[0] != "iter":
        r = _range_iter(it)
        if r is not None:
            return r
        items = _as_items(I_, st, v)
        if items is None:
            return None
        it = ("iter", "seq", (tuple(items), 0))
    return it


def s_flat_map(I_, st, path, c, args, t, depth):
    it = _as_iter(I_, st, args[0])
    if it is None:
        return None
    return [(st, ("iter", "flat", (("iter", "map", (it, args[1])), None)))]


def _truth_fork(st, r):
    """(state in which r is true, state in which r is false); None for an impossible side"""
    if r[0] == "i":
        return (st, None) if r[1] != 0 else (None, st)
    if r[0] == "un" and r[1] == "Not":
        s_t, s_f = _truth_fork(st, r[2])
        return s_f, s_t
    key = _render(r)
    for c in st.cond:
        if c[0] in ("eq", "ne") and c[1] == key:
            return (st, None) if c[0] == "ne" else (None, st)
    s_t, s_f = st.copy(), st.copy()
    s_t.cond = s_t.cond + (("ne", key, (0,)),)
    s_f.cond = s_f.cond + (("eq", key, 0),)
    return s_t, s_f


def s_any_all(kind):
    """Iterator::any / all over a sequence whose elements are all known: the predicate is called element by element and the path forks on its result
    (short-circuit as std does). Unknown-length sources stay opaque."""
    def h(I_, st, path, c, args, t, depth):
        it = _as_iter(I_, st, args[0])
        if it is None:
            return None
        items = iter_drain_static(it)
        if items is None or any(x[0] == "splice" for x in items) or len(items) > 8:
            return None
        f = args[1]
        out = []
        work = [(st, 0)]
        while work:
            s, i = work.pop()
            if i == len(items):
                out.append((s, I(0 if kind == "any" else 1)))
                continue
            for (s2, r) in I_.call_value(s, f, [items[i]], t, None, depth):
                s_t, s_f = _truth_fork(s2, r)
                hit, cont = (s_t, s_f) if kind == "any" else (s_f, s_t)
                if hit is not None:
                    out.append((hit, I(1 if kind == "any" else 0)))
                if cont is not None:
                    work.append((cont, i + 1))
        return out
    return h


def s_variant_map(kind):
    """Result::map / map_err / and_then, Option::map / and_then: the closure is applied to the payload of the matching variant, the other variant passes through"""
    def h(I_, st, path, c, args, t, depth):
        ty = (t.get("atys") or [""])[0].lstrip("&").replace("mut ", "", 1).strip()
        out = []
        for (s2, v) in I_.fork_variants(st, _target(I_, st, args[0]), ty):
            if not (v[0] == "adt" and v[2] in ("Ok", "Err", "Some", "None")):
                return None
            hit = {"map": ("Ok", "Some"), "map_err": ("Err",), "and_then": ("Ok", "Some")}[kind]
            if v[2] in hit:
                for (s3, r) in I_.call_value(s2, args[1], [I_.field(v, 0)], t, None, depth):
                    if kind == "and_then":
                        out.append((s3, r))
                    else:
                        out.append((s3, adt(v[1], v[2], (r,))))
            else:
                out.append((s2, v))
        return out
    return h


def s_ctor(variant):
    def h(I_, st, path, c, args, t, depth):
        if variant == "Some":
            return [(st, some(args[0]))]
        return [(st, ok(args[0]) if variant == "Ok" else err(args[0]))]
    return h


def s_option_or(kind):
    """Option::unwrap_or / unwrap_or_else / unwrap_or_default / map_or / map_or_else / ok_or / ok_or_else / is_some_and / is_none_or,
    Result::unwrap_or / unwrap_or_else / ok / err / is_ok_and / is_err_and : decided per variant (fork when the variant is unknown)"""
    def h(I_, st, path, c, args, t, depth):
        ty = (t.get("atys") or [""])[0].lstrip("&").replace("mut ", "", 1).strip()
        out = []
        for (s2, v) in I_.fork_variants(st, _target(I_, st, args[0]), ty):
            if not (v[0] == "adt" and v[2] in ("Ok", "Err", "Some", "None")):
                return None
            present = v[2] in ("Some", "Ok")
            pay = I_.field(v, 0) if v[2] != "None" else None
            if kind == "unwrap_or":
                out.append((s2, pay if present else args[1]))
            elif kind == "unwrap_or_else":
                if present:
                    out.append((s2, pay))
                else:
                    out.extend(I_.call_value(s2, args[1], [] if v[2] == "None" else [pay], t, None, depth))
            elif kind == "map_or":
                if present:
                    out.extend(I_.call_value(s2, args[2], [pay], t, None, depth))
                else:
                    out.append((s2, args[1]))
            elif kind == "map_or_else":
                if present:
                    out.extend(I_.call_value(s2, args[2], [pay], t, None, depth))
                else:
                    out.extend(I_.call_value(s2, args[1], [] if v[2] == "None" else [pay], t, None, depth))
            elif kind == "ok_or":
                out.append((s2, ok(pay) if present else err(args[1])))
            elif kind == "ok_or_else":
                if present:
                    out.append((s2, ok(pay)))
                else:
                    for (s3, r) in I_.call_value(s2, args[1], [], t, None, depth):
                        out.append((s3, err(r)))
            elif kind == "ok":
                out.append((s2, some(pay) if v[2] == "Ok" else NONE))
            elif kind == "err":
                out.append((s2, some(pay) if v[2] == "Err" else NONE))
            elif kind in ("is_some_and", "is_ok_and"):
                if present:
                    out.extend(I_.call_value(s2, args[1], [pay], t, None, depth))
                else:
                    out.append((s2, I(0)))
            elif kind == "is_none_or":
                if present:
                    out.extend(I_.call_value(s2, args[1], [pay], t, None, depth))
                else:
                    out.append((s2, I(1)))
            elif kind in ("is_some", "is_ok"):
                out.append((s2, I(1 if present else 0)))
            elif kind in ("is_none", "is_err"):
                out.append((s2, I(0 if present else 1)))
            else:
                return None
        return out
    return h


_ORD_SETS = {"is_lt": ("Less",), "is_le": ("Less", "Equal"), "is_gt": ("Greater",), "is_ge": ("Greater", "Equal"), "is_eq": ("Equal",), "is_ne": ("Less", "Greater")}


def s_ordering_is(kind):
    def h(I_, st, path, c, args, t, depth):
        out = []
        v0 = _target(I_, st, args[0])
        if v0[0] == "adt" and v0[2] in ("Less", "Equal", "Greater"):
            return [(st, I(1 if v0[2] in _ORD_SETS[kind] else 0))]
        origin = _origin(v0)
        decided = [c[2] for c in st.cond if c[0] == "variant" and c[1] == "Ordering" and c[3] == origin]
        for name in ("Less", "Equal", "Greater"):
            if decided and decided[0] != name:
                continue
            s2 = st.copy()
            if not decided:
                s2.cond = s2.cond + (("variant", "Ordering", name, origin),)
            out.append((s2, I(1 if name in _ORD_SETS[kind] else 0)))
        return out
    return h


def s_str_eq(negate):
    """equality of two texts that are both known (string literals of the analysed code or of the concrete input); anything else stays opaque"""
    def h(I_, st, path, c, args, t, depth):
        if len(args) != 2:
            return None
        vs = []
        for a in args:
            v = a
            for _ in range(4):
                if v[0] in ("lref", "ptr", "href"):
                    v = _target(I_, st, v)
                else:
                    break
            vs.append(v)
        if vs[0][0] == "s" and vs[1][0] == "s":
            eq = vs[0][1] == vs[1][1]
            return [(st, I(1 if eq != negate else 0))]
        return None
    return h


def s_find(I_, st, path, c, args, t, depth):
    """Iterator::find over a fully known sequence: the first element for which the predicate holds"""
    it = _as_iter(I_, st, args[0])
    if it is None:
        return None
    items = iter_drain_static(it)
    if items is None or any(x[0] == "splice" for x in items) or len(items) > 8:
        return None
    out = []
    work = [(st, 0)]
    while work:
        s, i = work.pop()
        if i == len(items):
            out.append((s, NONE))
            continue
        for (s2, r) in I_.call_value(s, args[1], [items[i]], t, None, depth):
            s_t, s_f = _truth_fork(s2, r)
            if s_t is not None:
                out.append((s_t, some(items[i])))
            if s_f is not None:
                work.append((s_f, i + 1))
    return out


def _concrete_key(v):
    return v[0] in ("i", "s", "label")


def _map_target(I_, st, ref):
    m = _target(I_, st, ref)
    return m if (m[0] == "map") else None


def s_hashmap_new(I_, st, path, c, args, t, depth):
    return [(st, ("map", ()))]


def s_hashmap_insert(I_, st, path, c, args, t, depth):
    m = _map_target(I_, st, args[0])
    k = _target(I_, st, args[1]) if args[1][0] in ("lref", "ptr") else args[1]
    if m is None or not _concrete_key(k) or not all(_concrete_key(e[0]) for e in m[1]):
        return None
    old = None
    ents = []
    for (k2, v2) in m[1]:
        if k2 == k:
            old = v2
            ents.append((k2, args[2]))
        else:
            ents.append((k2, v2))
    if old is None:
        ents.append((k, args[2]))
    if not _store(I_, st, args[0], ("map", tuple(ents))):
        return None
    return [(st, NONE if old is None else some(old))]


def s_hashmap_lookup(kind):
    def h(I_, st, path, c, args, t, depth):
        m = _map_target(I_, st, args[0])
        k = _target(I_, st, args[1]) if args[1][0] in ("lref", "ptr") else args[1]
        if m is None or not _concrete_key(k) or not all(_concrete_key(e[0]) for e in m[1]):
            return None
        hit = [v2 for (k2, v2) in m[1] if k2 == k]
        if kind == "contains_key":
            return [(st, I(1 if hit else 0))]
        if kind == "get":
            return [(st, some(hit[0]) if hit else NONE)]
        if kind == "index":
            return [(st, hit[0])] if hit else None
        if kind == "len":
            return [(st, I(len(m[1])))]
        return None
    return h


_INT_RANGE = {"i8": (-2**7, 2**7 - 1), "i16": (-2**15, 2**15 - 1), "i32": (-2**31, 2**31 - 1), "i64": (-2**63, 2**63 - 1), "isize": (-2**63, 2**63 - 1),
              "u8": (0, 2**8 - 1), "u16": (0, 2**16 - 1), "u32": (0, 2**32 - 1), "u64": (0, 2**64 - 1), "usize": (0, 2**64 - 1)}


def s_int_try_from(I_, st, path, c, args, t, depth):
    """integer TryFrom on a concrete number: Ok when it fits the target type"""
    m = re.search(r"TryFrom<(\w+)> for (\w+)>::try_from$", path)
    v = args[0]
    if not m or v[0] != "i" or m.group(2) not in _INT_RANGE:
        return None
    lo, hi = _INT_RANGE[m.group(2)]
    return [(st, ok(v) if lo <= v[1] <= hi else err(U("TryFromIntError")))]


def s_slice_get(I_, st, path, c, args, t, depth):
    """slice::get(i) with a usize index: Some(element) exactly when i < len"""
    seqv = _target(I_, st, args[0])
    idx = args[1]
    if (t.get("atys") or ["", ""])[1:2] != ["usize"]:
        return None
    if seqv[0] == "seq" and idx[0] == "i" and not any(x[0] == "splice" for x in seqv[1]):
        return [(st, some(seqv[1][idx[1]]) if 0 <= idx[1] < len(seqv[1]) else NONE)]
    ln = ("un", "len", seqv) if seqv[0] != "seq" else ("call", "len", (seqv,), "usize")
    test = ("bin", "Lt", idx, ("call", "Vec::len", (seqv,), "usize"))
    s_t, s_f = _truth_fork(st, test)
    out = []
    if s_t is not None:
        out.append((s_t, some(("call", "Index::index", (seqv, idx), ""))))
    if s_f is not None:
        out.append((s_f, NONE))
    return out


def s_find_map(I_, st, path, c, args, t, depth):
    """Iterator::find_map over a fully known sequence: the first Some the closure returns"""
    it = _as_iter(I_, st, args[0])
    if it is None:
        return None
    items = iter_drain_static(it)
    if items is None or any(x[0] == "splice" for x in items) or len(items) > 8:
        return None
    out = []
    work = [(st, 0)]
    while work:
        s, i = work.pop()
        if i == len(items):
            out.append((s, NONE))
            continue
        for (s2, r) in I_.call_value(s, args[1], [items[i]], t, None, depth):
            for (s3, v) in I_.fork_variants(s2, r, "std::option::Option<T>"):
                if v[0] == "adt" and v[2] == "Some":
                    out.append((s3, v))
                elif v[0] == "adt" and v[2] == "None":
                    work.append((s3, i + 1))
                else:
                    return None
    return out


SUMMARIES = [(re.compile(rx), h) for rx, h in [
    (r"^(std|alloc)::vec::Vec::<T>::new$|^(std|alloc)::vec::Vec::<T>::with_capacity$", s_vec_new),
    (r"^(std|alloc)::vec::Vec::<T, A>::push$|^(std|alloc)::string::String::push_str$|^(std|alloc)::string::String::push$", s_vec_push),
    (r"^(std|alloc)::string::String::new$", s_vec_new),
    (r"^(std|alloc)::vec::Vec::<T, A>::pop$", s_vec_pop),
    (r"^(std|alloc)::vec::Vec::<T, A>::len$|slice::<impl \[T\]>::len$", s_len),
    (r"^(std|alloc)::vec::Vec::<T, A>::is_empty$|slice::<impl \[T\]>::is_empty$", s_is_empty),
    (r"IntoIterator>::into_iter$|IntoIterator for .*>::into_iter$|slice::<impl \[T\]>::iter$|slice::<impl \[T\]>::iter_mut$|Vec::<T, A>::drain$", s_into_iter),
    (r"Iterator>::chain$|Iterator::chain$", s_iter_adapter("chain")),
    (r"Iterator>::map$|Iterator::map$", s_iter_adapter("map")),
    (r"Iterator>::rev$|Iterator::rev$", s_iter_adapter("rev")),
    (r"Iterator>::flatten$|Iterator::flatten$", s_iter_adapter("flatten")),
    (r"Iterator>::flat_map$|Iterator::flat_map$", s_flat_map),
    (r"Iterator>::any$|Iterator::any$", s_any_all("any")), (r"Iterator>::all$|Iterator::all$", s_any_all("all")),
    (r"result::Result::<T, E>::map$|option::Option::<T>::map$", s_variant_map("map")),
    (r"result::Result::<T, E>::map_err$", s_variant_map("map_err")),
    (r"(option::Option::<T>|result::Result::<T, E>)::unwrap_or$", s_option_or("unwrap_or")), (r"(option::Option::<T>|result::Result::<T, E>)::unwrap_or_else$", s_option_or("unwrap_or_else")),
    (r"(option::Option::<T>|result::Result::<T, E>)::map_or$", s_option_or("map_or")), (r"(option::Option::<T>|result::Result::<T, E>)::map_or_else$", s_option_or("map_or_else")),
    (r"option::Option::<T>::ok_or$", s_option_or("ok_or")), (r"option::Option::<T>::ok_or_else$", s_option_or("ok_or_else")),
    (r"result::Result::<T, E>::ok$", s_option_or("ok")), (r"result::Result::<T, E>::err$", s_option_or("err")),
    (r"option::Option::<T>::is_some$", s_option_or("is_some")), (r"option::Option::<T>::is_none$", s_option_or("is_none")),
    (r"result::Result::<T, E>::is_ok$", s_option_or("is_ok")), (r"result::Result::<T, E>::is_err$", s_option_or("is_err")),
    (r"option::Option::<&T>::(copied|cloned)$|option::Option::<&mut T>::(copied|cloned)$|option::Option::<T>::(copied|cloned)$", s_identity),
    (r"option::Option::<T>::is_some_and$", s_option_or("is_some_and")), (r"result::Result::<T, E>::is_ok_and$", s_option_or("is_ok_and")), (r"option::Option::<T>::is_none_or$", s_option_or("is_none_or")),
    (r"cmp::Ordering::(is_lt)$", s_ordering_is("is_lt")), (r"cmp::Ordering::(is_le)$", s_ordering_is("is_le")), (r"cmp::Ordering::(is_gt)$", s_ordering_is("is_gt")),
    (r"cmp::Ordering::(is_ge)$", s_ordering_is("is_ge")), (r"cmp::Ordering::(is_eq)$", s_ordering_is("is_eq")), (r"cmp::Ordering::(is_ne)$", s_ordering_is("is_ne")),
    (r"PartialEq.*>::eq$|PartialEq.*::eq$", s_str_eq(False)), (r"PartialEq.*>::ne$|PartialEq.*::ne$", s_str_eq(True)),
    (r"Iterator>::find$|Iterator::find$", s_find),
    (r"Iterator>::find_map$|Iterator::find_map$", s_find_map),
    (r"result::Result::<T, E>::and_then$|option::Option::<T>::and_then$", s_variant_map("and_then")),
    (r"option::Option(::<T>)?::Some$|^std::prelude::v\d::Some$", s_ctor("Some")), (r"result::Result(::<T, E>)?::Ok$|^std::prelude::v\d::Ok$", s_ctor("Ok")),
    (r"result::Result(::<T, E>)?::Err$|^std::prelude::v\d::Err$", s_ctor("Err")),
    (r"Iterator>::enumerate$|Iterator::enumerate$", s_iter_adapter("enumerate")),
    (r"Iterator>::(cloned|copied|by_ref|peekable|fuse)$|Iterator::(cloned|copied|by_ref|peekable|fuse)$", s_iter_adapter("cloned")),
    (r"Iterator>::next$|Iterator::next$", s_next),
    (r"Iterator>::collect$|Iterator::collect$|FromIterator<.*>>::from_iter$", s_collect),
    (r"Iterator>::unzip$|Iterator::unzip$", s_unzip),
    (r"Extend<.*>>::extend$|Vec::<T, A>::extend_from_slice$|Vec::<T, A>::append$", s_extend),
    (r"slice::<impl \[T\]>::reverse$", s_reverse),
    (r"slice::<impl \[T\]>::get$", s_slice_get),
    (r"slice::<impl \[T\]>::first$", s_slice_pick("first")), (r"slice::<impl \[T\]>::last$", s_slice_pick("last")),
    (r"slice::<impl \[T\]>::split_last$", s_slice_pick("split_last")), (r"slice::<impl \[T\]>::split_first$", s_slice_pick("split_first")),
    (r"::Deref>::deref$|::DerefMut>::deref_mut$|::AsRef<.*>>::as_ref$|::Borrow<.*>>::borrow$|Vec::<T, A>::as_slice$|Vec::<T, A>::as_mut_slice$|::as_mut$|String::as_str$", s_identity),
    (r"::Clone>::clone$|::ToOwned>::to_owned$|::to_owned$|::ToString>::to_string$|::to_vec$", s_clone),
    (r"::Try>::branch$", s_try_branch),
    (r"::FromResidual<.*>>::from_residual$", s_from_residual),
    (r"boxed::Box::<T>::new$", s_box_new),
    (r"alloc::alloc::exchange_malloc$", s_malloc),
    (r"slice::<impl \[T\]>::into_vec$", s_into_vec),
    (r"HashSet::<T>::new$|HashSet::<T, S>::new$", s_set_new),
    (r"TryFrom<\w+> for \w+>::try_from$", s_int_try_from),
    (r"HashMap::<K, V>::new$|HashMap::<K, V, S>::new$|HashMap::<K, V>::with_capacity$", s_hashmap_new),
    (r"HashMap::<K, V, S>::insert$", s_hashmap_insert),
    (r"HashMap::<K, V, S>::contains_key$", s_hashmap_lookup("contains_key")), (r"HashMap::<K, V, S>::get$", s_hashmap_lookup("get")),
    (r"HashMap<K, V, S> as std::ops::Index<&Q>>::index$|HashMap<K, V, S> as core::ops::Index<&Q>>::index$", s_hashmap_lookup("index")),
    (r"HashSet::<T, S>::insert$", s_set_insert),
    (r"HashSet::<T, S>::iter$", s_set_iter),
    (r"Option::<T>::unwrap$|Result::<T, E>::unwrap$|Option::<T>::expect$|Result::<T, E>::expect$", s_option_unwrap),
    (r"std::mem::replace$|core::mem::replace$", s_mem_replace),
    (r"std::mem::take$|core::mem::take$", s_mem_take),
]]
