"""Panic-edge census shared by C01 / C03 / C16: every construct in a MIR body that can
unwind (Assert terminators, calls to panicking std/chrono APIs)."""
import re, collections
import lib

# resolved callee paths that panic on some argument (one row per API, condition in the comment)
PANIC_API = [
    (r"^(std|core)::result::Result::<T, E>::(unwrap|expect|unwrap_err|expect_err)$", "Err/Ok mismatch"),
    (r"^(std|core)::option::Option::<T>::(unwrap|expect)$", "None"),
    (r"^(std|core)::(rt::panic_fmt|rt::begin_panic|panicking::\w+)", "explicit panic!/unreachable!/assert!/todo!"),
    (r" as std::ops::Index(Mut)?<.*>>::index(_mut)?$", "index out of range / key absent"),
    (r"^(std|core)::(slice|str|array)::<impl .*>::index(_mut)?$", "index out of range"),
    (r"^(std|core|alloc)::vec::Vec::<T, A>::(remove|insert|swap_remove|drain|split_off)$", "index out of range"),
    (r"^(std|alloc)::string::String::(remove|insert|insert_str|drain|split_off|truncate|replace_range)$", "bad byte offset"),
    (r"^(std|core)::str::<impl str>::(split_at|split_at_mut)$", "bad byte offset"),
    (r"^(std|core)::slice::<impl \[T\]>::(split_at|split_at_mut|copy_from_slice|clone_from_slice|swap|chunks|windows|chunks_exact|rotate_left|rotate_right)$", "range / size"),
    (r"^(std|core)::num::<impl [iu]\d+>::(pow|abs|ilog2|ilog10|ilog|isqrt|div_euclid|rem_euclid|next_power_of_two|abs_diff_never)$", "overflow / domain"),
    (r"^(std|core)::cell::RefCell::<T>::(borrow|borrow_mut)$", "already borrowed"),
    (r"^(std|core)::iter::Iterator::step_by$", "step 0"),
    (r"^(std|core)::char::methods::<impl char>::from_digit$", "radix > 36"),
    (r"^<chrono::.* as std::ops::(Add|Sub|Neg|Mul|Div|AddAssign|SubAssign)(<.*>)?>::\w+$", "chrono operator: out of range"),
    (r"^chrono::(TimeDelta|Duration)::(weeks|days|hours|minutes|seconds|milliseconds)$", "out of range constructor"),
    (r"^chrono::.*::(with_ymd_and_hms|from_ymd|from_hms|and_hms|timestamp_nanos)$", "invalid civil time"),
    (r"^(std|core)::process::(abort|exit)$", "process exit"),
]
PANIC_API = [(re.compile(r), why) for r, why in PANIC_API]

# sort_by: since 1.81 may panic if the comparator is not a total order -> listed
PANIC_API.append((re.compile(r"^(std|core)::slice::<impl \[T\]>::(sort_by|sort_unstable_by|sort_by_key|sort|sort_unstable)$"), "non-total order"))

# names that look panic-like but are total (confirmed from the std / chrono docs)
SAFE_API = re.compile(
    r"::(unwrap_or|unwrap_or_else|unwrap_or_default|checked_\w+|saturating_\w+|wrapping_\w+|overflowing_\w+|to_owned|into_owned|"
    r"split_at_checked|remove_matches|powf|powi|get|get_mut|first|last|insert_if_absent)$"
    r"|^<std::borrow::Cow<'_, B> as std::ops::Deref>::deref$"
    r"|^std::collections::Hash(Map|Set)::<.*>::(insert|remove|remove_entry|contains_key|contains|entry|drain|retain)$"
    r"|^(core|std)::f64::<impl f64>::(abs|sqrt|ln|log|log2|log10|floor|ceil|round|trunc)$"
    r"|^chrono::DateTime::<Tz>::(timestamp|timestamp_millis|timestamp_subsec_\w+)$"
    r"|^std::string::String::(insert_if|remove_matches)$"
    r"|^(std|core)::ops::(Index|IndexMut)::index(_mut)?$"     # unresolved generic trait method inside a generic fn: resolved at the caller
)
LOOKS_PANICKY = re.compile(r"unwrap|expect|panic|assert|unreachable|::index|split_at|ilog|::pow$|::abs$|from_digit|::remove$|::insert$|drain|split_off|truncate|swap_remove|sort|RefCell|step_by|copy_from_slice|abort|::exit$")


def classify_callee(path):
    for r, why in PANIC_API:
        if r.search(path):
            return "panic", why
    if SAFE_API.search(path):
        return "safe", ""
    if LOOKS_PANICKY.search(path):
        return "unclassified", ""
    return "none", ""


def sig_of_callee(path):
    s = lib.short(path)
    return "call:" + s


DISCHARGED = []


def root_fn(path):
    """the function a closure body belongs to"""
    return re.sub(r"(::\{closure#\d+\})+$", "", path)


def load_table():
    """reviewed rows, keyed `function|construct` (rows written for a closure are folded into their function, counts added)"""
    import json, os
    rows = json.load(open(os.path.join(lib.VERIF, "tables", "panic_sites.json")))["rows"]
    out = {}
    for k, v in rows.items():
        bp, _, sig = k.rpartition("|")
        nk = root_fn(bp) + "|" + sig
        if nk in out:
            out[nk] = dict(out[nk], count=out[nk]["count"] + v["count"], reason=out[nk]["reason"] + " / " + v["reason"])
        else:
            out[nk] = dict(v)
    return out


def census(F, pkgs):
    """-> dict[(body_path, sig)] = [ (line, detail) ... ], and list of unclassified (body, callee, line)"""
    out = collections.defaultdict(list)
    unclassified = []
    del DISCHARGED[:]
    nbodies = 0
    ncalls = 0
    for b in F.bodies.values():
        if b.pkg not in pkgs:
            continue
        nbodies += 1
        for i, t in b.terms("assert"):
            m = t["msg"]
            if m["ak"] == "Other":
                # compiler-inserted debug UB checks (null / misaligned raw pointer deref inside vec!/box expansions);
                # no safe-code input controls them
                continue
            if m["ak"] in ("DivisionByZero", "RemainderByZero") and (lib.op_const_int(m["a"]) or 0) != 0:
                # D-const: the divisor is a non-zero compile-time constant; the assert cannot fire
                continue
            if m["ak"] == "BoundsCheck":
                # D-length: constant index below every length the slice can have here (length tests on all paths of this function and,
                # for private functions, of all its callers - rules/lenfacts.py)
                import lenfacts
                why = lenfacts.constant_index_safe(F, F.callgraph(), b, t, i)
                if why:
                    DISCHARGED.append((b.path, "D-length", why))
                    continue
            sig = "assert:%s:%s:%s" % (m["ak"], m.get("op") or "-", m.get("ty") or "-")
            out[(b.path, sig)].append((t["line"], t["file"]))
        for i, t in b.calls():
            ncalls += 1
            rid, path, c = lib.callee_of(t)
            if rid is None:
                continue
            if rid in F.bodies or ("py!" + rid) in F.bodies:
                continue
            k, why = classify_callee(path)
            if k == "panic":
                out[(b.path, sig_of_callee(path))].append((t["line"], t["file"]))
            elif k == "unclassified":
                unclassified.append((b.path, path, t["line"], t["file"]))
    return out, unclassified, nbodies, ncalls
