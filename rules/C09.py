"""C09 constant folding is invisible: compile-time and run-time evaluation agree - structural clauses.

  R09.1 fold / VM pairing: for every operator template (relations incl. `in`, + -, * / %, index, list and map literals) the term the
        folder computes on all-constant operands equals the value the VM computes by executing the emitted code on the same operands
        (emitted code interpreted with the VM arm semantics extracted from run_raw; both sides are expressions over the operands, so
        the callee AND the operand order / entry order must coincide)
  R09.2 no operand is silently dropped: a node is a constant only when every operand it parsed is a constant, and otherwise every
        parsed operand's code occurs exactly once in the emitted code (exceptions: the untaken branch of a folded ?: and calls, which
        are evaluated by the VM itself at compile time)
  R09.3 clock: check_for_const freezes a call result only on the path where reads_clock() said no and the evaluation succeeded, and
        reads_clock() names every registered function / constructor that can reach the system clock
  R09.4 compile-time macros are a sub-table of the run-time macros with the same targets; the compile-time context binds no variables
  R09.5 prefix-operator lists are never constants (the hypothesis the other templates use), by induction on their own templates
  R09.6 a frozen call result cannot embed an unbound-variable failure (containers keep failed elements as values, so the compile-time
        evaluation of `[x].f()` succeeds with x unbound)
Not decided: the general substitution property."""
import re
import lib, mirq, tplrules, vmtable, ctemplates

CC = ctemplates.CC
OPS = ["Add", "Sub", "Mul", "Div", "Mod", "Lt", "Le", "Eq", "Ne", "Ge", "Gt", "In", "Index", "MkList", "MkDict", "Not", "Neg"]
PAIR_ROOTS = ["parse_relation", "parse_addition", "parse_multiplication", "parse_member", "parse_primary"]
DROP_ROOTS = ["parse_conditional_or", "parse_conditional_and", "parse_relation", "parse_addition", "parse_multiplication", "parse_unary"]


def sig(p):
    toks = tuple(c[2] for c in p["cond"] if c[0] == "variant" and str(c[1]).endswith("Token"))
    return (tuple(c for _, c in p["parses"]), toks)


def run(chk, tier):
    F = lib.get_facts()
    chk.rule("R09.1", "the folder's term on constant operands equals the VM's value of the emitted code on the same operands (callee, operand order, entry order)")
    chk.rule("R09.2", "a node is constant only if all its operands are; otherwise every operand's code occurs exactly once")
    chk.rule("R09.3", "call results are frozen only when reads_clock() is false and evaluation succeeded; reads_clock() names every clock-reaching registry entry")
    chk.rule("R09.4", "COMPILE_MACROS is a sub-table of DEFAULT_MACROS; for_compile binds no variables")
    chk.rule("R09.5", "prefix-operator lists are never constants")
    chk.rule("R09.6", "a frozen call result cannot embed an unbound-variable failure")
    db = tplrules.load(F)
    vm, eff = tplrules.vm_effects(F)
    sem = tplrules.vm_semantics(F, vm, OPS)
    for m, e in db["errors"].items():
        chk.bad("R09.1", "extract|" + m, "template extraction failed: " + e[:200], "rscel/src/compiler/compiler.rs")

    # ---------------- R09.1
    npairs = 0
    for m in PAIR_ROOTS:
        folds, codes = {}, {}
        for p in db["roots"].get(m, []):
            s = sig(p)
            if p["kind"] == "const":
                folds.setdefault(s, set()).add(re.sub(r"const:(\d+)", r"c\1", p["fold"]))
            elif p["kind"] == "code":
                # the all-code form: every operand appears as <k>
                if all(it["k"] in ("code", "op") and not (it["k"] == "op" and it["name"] == "Push") for it in p["items"]) and any(it["k"] == "op" for it in p["items"]):
                    v = tplrules.sym_value(p["items"], sem, eff)
                    if v is not None:
                        codes.setdefault(s, set()).add((v, p["text"]))
                    elif all(it["k"] != "op" or it["name"] in OPS for it in p["items"]):
                        # fail closed: the VM arm of one of these opcodes no longer has an extractable single-value semantics
                        chk.bad("R09.1", "%s|vm value unknown|%s" % (m, p["text"][:60]), "the value the VM computes for `%s` could not be extracted from run_raw (arm semantics: %s) - fold / VM agreement is undecided (fail closed)" % (p["text"][:80], {it["name"]: sem.get(it["name"]) for it in p["items"] if it["k"] == "op"}), "rscel/src/interp/interp.rs")
        for s in sorted(set(folds) & set(codes), key=str):
            fs, cs = folds[s], codes[s]
            vs = set(v for v, _ in cs)
            key = "%s|%s|%s" % (m, ",".join(s[1]) or "-", sorted(cs)[0][1][:60])
            npairs += 1
            if len(fs) == 1 and fs == vs:
                chk.ok("R09.1", key, {"fold": sorted(fs)[0][:120], "vm": sorted(vs)[0][:120]})
            else:
                chk.bad("R09.1", key, "the compile-time evaluator computes %s but the emitted code evaluates to %s for the same operands (a program means something different when a variable is replaced by its literal)" % (sorted(fs), sorted(vs)), "rscel/src/compiler/compiler.rs (%s)" % m)
    chk.floor("R09.1", "fold/VM pairs compared", npairs, 40)

    # ---------------- R09.2
    for m in DROP_ROOTS + ["parse_member", "parse_primary"]:
        for p in db["roots"].get(m, []):
            n = len(p["parses"])
            text = p["text"][:100]
            if m in ("parse_member", "parse_primary") and (re.search(r"Call\(", p["text"]) or "run_raw" in p["text"] or "FmtString" in p["text"]):
                continue   # calls / f-strings: evaluated by the VM itself (R09.3, R09.6)
            if p["kind"] == "const":
                nonconst = [k for k in range(n) if tplrules.variant_of_child(p, k) != "ConstExpr"]
                if nonconst and not (m == "parse_member" and "access" in p["text"].lower()):
                    chk.bad("R09.2", "%s|const with non-constant operand|%s" % (m, text[:60]),
                            "%s yields the constant %s although operand(s) %s need not be constant: their evaluation (and failure) disappears from the program" % (m, p.get("fold", "")[:80], nonconst), "rscel/src/compiler/compiler.rs (%s)" % m)
                else:
                    chk.ok("R09.2", "%s|const|%s" % (m, text[:60]))
            elif p["kind"] == "code":
                kids = tplrules.children_in(p["items"])
                # operands folded into a pushed constant count as present
                pushed = set(int(x) for it in p["items"] if it["k"] == "op" and it["name"] == "Push" for a in it.get("args", []) for x in re.findall(r"const:(\d+)", a))
                present = sorted(kids + sorted(pushed))
                if present != list(range(n)):
                    chk.bad("R09.2", "%s|operand dropped or duplicated|%s" % (m, text[:60]), "%s parsed operands %s but the emitted code contains %s   [template: %s]" % (m, list(range(n)), present, p["text"][:200]), "rscel/src/compiler/compiler.rs (%s)" % m)
                else:
                    chk.ok("R09.2", "%s|code|%s" % (m, text[:60]))

    # ---------------- R09.5
    for m in ("parse_not_list", "parse_neg_list"):
        kinds = sorted(set(p["kind"] for p in db["roots"].get(m, [])))
        if kinds == ["code"]:
            chk.ok("R09.5", m, "all templates are code")
        else:
            chk.bad("R09.5", m, "%s can return a %s node; the unary templates assume its result is code (a constant prefix list would make `!c` fold to c)" % (m, kinds), "rscel/src/compiler/compiler.rs")

    # ---------------- R09.3
    b = F.body(CC + "check_for_const")
    q = mirq.BodyQ(b)
    rc = q.call_sites(r"CelCompiler::<'l>::reads_clock$")
    rr = q.call_sites(r"Interpreter::<'a>::run_raw$")
    # freeze sites: wherever check_for_const builds a constant node (with_const call or a NodeValue::ConstExpr aggregate)
    wc = q.call_sites(r"CompiledProg::with_const$") + [(i, s_, "NodeValue::ConstExpr") for (i, a_, v_, s_) in q.aggregates(adt_suffix="compiled_prog::NodeValue") if v_ == "ConstExpr"]
    okc = len(rc) == 1 and len(rr) == 1 and len(wc) >= 1
    if okc:
        # reads_clock true edge must not reach with_const
        sw = None
        cur = rc[0][1]["t"]
        for _ in range(6):
            t2 = b.blocks[cur]["term"]
            if t2 and t2["k"] == "switch":
                sw = (cur, t2)
                break
            s_ = b.succs(cur)
            if len(s_) != 1:
                break
            cur = s_[0]
        if sw is None:
            okc = False
        else:
            sblk, st = sw
            zero = [c[1] for c in st["cases"] if int(c[0]) == 0]
            true_t = st["otherwise"] if zero else [c[1] for c in st["cases"] if int(c[0]) == 1][0]
            reach_true = q.reach(true_t)
            if any(i in reach_true for i, _, _ in wc) or any(i in reach_true for i, _, _ in rr):
                okc = False
        ve = q.variant_edges(rr[0][0])
        if ve is None or any(i in q.reach(ve["Err"]) for i, _, _ in wc):
            okc = False
    if okc:
        chk.ok("R09.3", "check_for_const|freeze only if no clock and Ok")
    else:
        chk.bad("R09.3", "check_for_const|freeze only if no clock and Ok", "check_for_const must not evaluate / freeze a call when reads_clock() is true, and must keep the code when evaluation fails", b.file)
    rcb = F.body(CC + "reads_clock")
    names = set()
    for i, s in rcb.stmts():
        for o in lib.iter_operands(s):
            v = lib.op_const_str(o)
            if v:
                names.add(v)
    for i, t in rcb.calls():
        for o in t["args"]:
            v = lib.op_const_str(o)
            if v:
                names.add(v)
    for pb in rcb.d.get("promoted") or []:
        for blk in pb["blocks"]:
            for st_ in blk["stmts"]:
                for o in lib.iter_operands(st_):
                    v = lib.op_const_str(o)
                    if v:
                        names.add(v)
    cg = F.callgraph()
    clock = set()
    for bb_ in F.bodies.values():
        if bb_.pkg != "rscel":
            continue
        for i, t in bb_.calls():
            rid, pth, c = lib.callee_of(t)
            if rid is not None and re.search(r"Utc::now$|SystemTime::now$|Instant::now$|Local::now$", pth):
                clock.add(bb_.id)
    # propagate to callers
    changed = True
    while changed:
        changed = False
        for bid, ys in cg.edges.items():
            if bid not in clock and any(y in clock for y in ys):
                clock.add(bid)
                changed = True
    need = set()
    for regname in ("rscel::context::default_funcs::DEFAULT_FUNCS",):
        for r in F.registries[regname]["rows"]:
            if r.get("target") in clock:
                need.add(r["name"])
    # type constructors: construct_type's arms
    ct = F.body("rscel::context::type_funcs::construct_type")
    qc = mirq.BodyQ(ct)
    for i, t, p in qc.call_sites(r"type_funcs::\w+::methods::dispatch$|_impl$|::dispatch$"):
        rid = lib.callee_of(t)[0]
        if rid in clock:
            m = re.search(r"type_funcs::(\w+?)_type::", p)
            need.add(m.group(1) if m else p)
    if need and need <= names:
        chk.ok("R09.3", "reads_clock names every clock-reaching callable", {"clock_callables": sorted(need), "tested_names": sorted(names)})
    else:
        chk.bad("R09.3", "reads_clock names every clock-reaching callable", "callables that reach the system clock: %s; names reads_clock() tests: %s - a missing name is frozen into the compiled program" % (sorted(need), sorted(names)), rcb.file)

    # ---------------- R09.4
    comp = {r["name"]: r.get("target") for r in F.registries["rscel::context::default_macros::COMPILE_MACROS"]["rows"]}
    runt = {r["name"]: r.get("target") for r in F.registries["rscel::context::default_macros::DEFAULT_MACROS"]["rows"]}
    for n, tg in sorted(comp.items()):
        if runt.get(n) == tg:
            chk.ok("R09.4", "macro|" + n)
        else:
            chk.bad("R09.4", "macro|" + n, "compile-time macro %s -> %s differs from the run-time binding %s" % (n, tg, runt.get(n)), "rscel/src/context/default_macros.rs")
    fc = F.body("rscel::context::bind_context::BindContext::<'a>::for_compile")
    qf = mirq.BodyQ(fc)
    callees = [p for _, p, _ in qf.calls_in(set(range(len(fc.blocks))))]
    if any(re.search(r"bind_param|bind_params_from", p) for p in callees) or not any(p.endswith("load_compile_macros") for p in callees) or any(p.endswith("load_default_macros") for p in callees):
        chk.bad("R09.4", "for_compile", "the compile-time context must bind no variables and load the compile-time macro table: %s" % [lib.short(p) for p in callees], fc.file)
    else:
        chk.ok("R09.4", "for_compile", [lib.short(p) for p in callees if "load_" in p])

    # ---------------- R09.6
    # a predicate over the evaluation's Ok value whose outcome the freeze is control-dependent on
    guard = []
    for gi, gt in b.calls():
        rid_, gp, gc = lib.callee_of(gt)
        if rid_ is None or gt.get("dty") != "bool" or not gt["args"]:
            continue
        if "Interpreter::run_raw(" in mirq.expr_of(q, gt["args"][0]) and gp != "rscel::compiler::compiler::CelCompiler::<'l>::reads_clock":
            guard.append((gi, gt, gp))
    mk = {}
    for arm in ("MkList", "MkDict"):
        region = vm.region(arm)
        mk[arm] = [p for i, p, t in vm.q.calls_in(region) if re.search(r"is_err$|into_result$|error_prop", p)]
    if guard and all(b.dominates(g[0], w[0]) for g in guard for w in wc if True):
        chk.ok("R09.6", "check_for_const|frozen value scanned for embedded failures", lib.short(guard[0][2]))
    elif all(mk.values()):
        chk.ok("R09.6", "containers propagate failed elements", mk)
    else:
        chk.bad("R09.6", "check_for_const|freezes Ok values that may embed failures",
                "MKLIST/MKDICT store failed operands as elements and check_for_const freezes any Ok result: `[x].filter(v, true)` / `max([x])` are evaluated at compile time with x unbound and the unbound-variable failure is frozen into the program (binding x later does not help)", b.file)
    # the guard really looks for failures at EVERY depth: its decision table (symbolic execution) is
    #   Err -> true, List -> any(elements, guard), Map -> any(values, guard), anything else -> false
    import symex as _sx, semtables as _st
    for gi, gt, gp in guard:
        gb = F.bodies.get(lib.callee_of(gt)[0])
        if gb is None:
            continue
        it_ = _sx.Interp(F, _st.LogicPolicy())
        rows_ = {}
        for st_, r_ in it_.run(gb, [_sx.U("v", gb.local_ty(1))]):
            pos = [c[2] for c in st_.cond if c[0] == "variant" and c[3] == "v"]
            rows_[pos[0] if pos else "other"] = _sx.render(_sx.deep(st_, r_))
        me = lib.short(gb.path).replace("<'l>::", "")
        me_rx = re.escape("fn " + me)
        want_ = {"Err": r"^1$", "List": r"^Iterator::any\(.*, %s\)$" % me_rx, "Map": r"^Iterator::any\(HashMap::values\(v\.Map\.0\), %s\)$" % me_rx, "other": r"^0$"}
        bad_ = [(k_, rows_.get(k_)) for k_, rx_ in want_.items() if not (rows_.get(k_) is not None and re.match(rx_, rows_[k_]))]
        bad_ += [(k_, v_) for k_, v_ in rows_.items() if k_ not in want_ and v_ != "0"]
        if bad_:
            chk.bad("R09.6", "embedded-failure guard is deep", "%s must find a failure at any depth (Err -> true; list / map -> any element, recursively; otherwise false); found %s: "
                                                               "`zip([x], ['a'])` or `[[x, 2]].map(p, p)` would be frozen at compile time holding the unbound-variable failure" % (me, bad_), gb.file)
        else:
            chk.ok("R09.6", "embedded-failure guard is deep", rows_)
    # ---------------- R09.7 call arguments
    chk.rule("R09.7", "call arguments: every argument block is evaluated by run_raw on the calling interpreter and a failing argument fails the call - whatever the block looks like "
                      "(a constant-folded failure and a run-time failure of the same argument cannot be told apart by the callee)")
    ra = F.body("rscel::interp::interp::Interpreter::<'a>::resolve_args")

    class ArgPolicy(_st.LogicPolicy):
        max_paths = 400

        def stub(self, interp, st, path, c, args, t, caller):
            if path.endswith("Interpreter::<'a>::run_raw"):
                # name the evaluated block by its value (a reference to a loop local would look the same for every argument)
                shown = tuple(_sx._target(interp, st, a_) if a_[0] in ("lref", "ptr", "href") else a_ for a_ in args)
                return [(st, ("call", "run_raw", shown, "R"))]
            return None
    it_ = _sx.Interp(F, ArgPolicy())
    # decided on a concrete list of two arguments (x0, x1): for every combination of {code block that evaluates, code block that fails, plain value}
    CV_ = "rscel::types::cel_value::CelValue"

    class ArgPolicy2(ArgPolicy):
        max_paths = 4000

        def limit_for(self, body, blk):
            return 8
    got_ra = set()
    try:
        for st_, r_ in _sx.Interp(F, ArgPolicy2()).run(ra, [_sx.U("self"), ("seq", (_sx.U("x0", CV_), _sx.U("x1", CV_)))]):
            kinds = {}
            other = []
            for c in st_.cond:
                if c[0] == "variant" and c[3] in ("x0", "x1") and c[2] == "ByteCode":
                    kinds.setdefault(c[3], "block")
                elif c[0] == "variant-not" and c[3] in ("x0", "x1"):
                    kinds[c[3]] = "value"
                elif c[0] == "variant" and re.match(r"^run_raw\(self, x[01]\.ByteCode\.0, 1\)$", str(c[3])):
                    kinds[re.search(r"(x[01])", str(c[3])).group(1)] = "block-ok" if c[2] == "Ok" else "block-err"
                else:
                    other.append(tuple(c[:4]))
            got_ra.add((kinds.get("x0", "?"), kinds.get("x1", "-"), tuple(other), _sx.render(_sx.deep(st_, r_))))
    except Exception as e_:
        got_ra.add(("could not be executed symbolically", str(e_)[:100], (), ""))
    R0, R1 = "run_raw(self, x0.ByteCode.0, 1)", "run_raw(self, x1.ByteCode.0, 1)"
    want_ra = {("block-ok", "block-ok", (), "Result::Ok([%s.Ok.0, %s.Ok.0])" % (R0, R1)), ("block-ok", "block-err", (), "Result::Err(%s.Err.0)" % R1),
               ("block-ok", "value", (), "Result::Ok([%s.Ok.0, x1])" % R0), ("block-err", "-", (), "Result::Err(%s.Err.0)" % R0),
               ("value", "block-ok", (), "Result::Ok([x0, %s.Ok.0])" % R1), ("value", "block-err", (), "Result::Err(%s.Err.0)" % R1), ("value", "value", (), "Result::Ok([x0, x1])")}
    # (a failing first argument ends the evaluation: whether the second one was looked at is not observable)
    norm_ra = set((a_ if True else a_, ("-" if a_ == "block-err" else b_), o_, r_) for a_, b_, o_, r_ in got_ra)
    if norm_ra == want_ra:
        chk.ok("R09.7", "resolve_args|two arguments", {"rows": len(norm_ra)})
    else:
        chk.bad("R09.7", "resolve_args|two arguments", "call arguments (x0, x1): every code block must be evaluated by run_raw in order, its failure must fail the call, plain values pass - whatever a block "
                                                        "looks like (a constant-folded failing argument such as `max(2, 1/0)` must not reach the callee as a value); implementation only: %s; expected only: %s"
                % (sorted(norm_ra - want_ra, key=str)[:2], sorted(want_ra - norm_ra, key=str)[:2]), ra.file)
    # ---------------- R09.8 run-dependence of the compile-time evaluation
    chk.rule("R09.8", "a call is frozen only if its compile-time evaluation read nothing a later execution may see differently: the interpreter marks every read of an unbound name "
                      "(the failed value can be absorbed by `in`, map equality, has, coalesce - so scanning the result is not enough) and every construction of a timestamp from no "
                      "arguments (however the type was reached: by name, as a type value, as an element); child interpreters share the mark; check_for_const tests it after the run")
    IPFX = "rscel::interp::"

    def switch_after(body, blk):
        cur_ = body.blocks[blk]["term"].get("t")
        for _ in range(6):
            if cur_ is None:
                return None
            t2_ = body.blocks[cur_]["term"]
            if t2_ and t2_["k"] == "switch":
                zero_ = [c_[1] for c_ in t2_["cases"] if int(c_[0]) == 0]
                one_ = [c_[1] for c_ in t2_["cases"] if int(c_[0]) == 1]
                return (one_[0] if one_ else t2_["otherwise"]), (zero_[0] if zero_ else t2_["otherwise"])
            su_ = body.succs(cur_)
            if len(su_) != 1:
                return None
            cur_ = su_[0]
        return None
    flagK = None
    guard_ok = False
    if rr:
        recv_ = mirq.expr_of(q, rr[0][1]["args"][0])
        for gi, gt in b.calls():
            rid_, gp, _c = lib.callee_of(gt)
            if rid_ is None or gt.get("dty") != "bool" or not gt["args"] or not re.search(r"interp::Interpreter::<'a>::\w+$", gp) or gp.endswith("::run_raw"):
                continue
            if mirq.expr_of(q, gt["args"][0]) != recv_ or not b.dominates(rr[0][0], gi):
                continue
            gb_ = F.bodies.get(rid_)
            if gb_ is None:
                continue
            gq_ = mirq.BodyQ(gb_)
            loads_ = [(i_, t_, p_) for i_, t_, p_ in gq_.call_sites(r"::load$|Cell::<T>::get$") if re.match(r"^p1\.\d+$", mirq.expr_of(gq_, t_["args"][0]))]
            others_ = [p_ for i_, t_ in gb_.calls() for p_ in [lib.callee_of(t_)[1]] if not re.search(r"::load$|Cell::<T>::get$|Deref>::deref$", p_ or "")]
            if len(loads_) != 1 or others_ or any(t_["k"] == "switch" for _, t_ in gb_.terms("switch")):
                continue
            sw_ = switch_after(b, gi)
            if sw_ is None:
                continue
            true_t_, false_t_ = sw_
            if true_t_ != false_t_ and not any(i_ in q.reach(true_t_) for i_, _, _ in wc):
                flagK = int(mirq.expr_of(gq_, loads_[0][1]["args"][0]).split(".")[1])
                guard_ok = True
                chk.ok("R09.8", "check_for_const|no freeze after a run-dependent evaluation", "%s reads Interpreter field %d" % (lib.short(gp), flagK))
    if not guard_ok:
        chk.bad("R09.8", "check_for_const|no freeze after a run-dependent evaluation",
                "check_for_const freezes any successful result without error values in it. A read of a variable that is unbound at compile time can be absorbed on the way: "
                "`bool(1 in [x])` is frozen to false (x = 1 makes it true), so are `bool({'a': x} == {'a': 1})` and `[1].map(e, 1 in [x])`. The interpreter must record that an unbound "
                "name was read and the freeze must be refused after such a run", b.file)
    ia_ = [a_ for a_ in F.adts.values() if a_["path"] == "rscel::interp::interp::Interpreter"]
    sa_ = [a_ for a_ in F.adts.values() if a_["path"] == "rscel::interp::interp::InterpStack"]
    ctx_idx_ = [k_ for k_, f_ in enumerate(sa_[0]["variants"][0]["fields"]) if "Interpreter<" in f_["ty"]] if sa_ else []
    if not ia_ or len(ctx_idx_) != 1:
        raise lib.MissingAnchor("Interpreter / InterpStack types")

    def flag_stores(body, bq):
        """blocks of calls that set the mark to true on the interpreter this code runs for"""
        out_ = []
        for i_, t_, p_ in bq.call_sites(r"::store$|Cell::<T>::set$|::fetch_or$"):
            ex_ = [mirq.expr_of(bq, a_) for a_ in t_["args"]]
            if flagK is not None and len(ex_) >= 2 and re.match(r"^p1\.(?:%d\.)?%d$" % (ctx_idx_[0], flagK), ex_[0]) and ex_[1] == "1":
                out_.append(i_)
        return out_
    # (c) every unbound-name failure of the interpreter is marked
    n_be = 0
    for ib_ in sorted((x_ for x_ in F.bodies.values() if x_.pkg == "rscel" and x_.path.startswith(IPFX)), key=lambda x_: x_.path):
        iq_ = mirq.BodyQ(ib_)
        # the failure becomes a VALUE the evaluation goes on with (a failed run cannot be frozen anyway)
        bes_ = [(i_, t_, p_) for i_, t_, p_ in iq_.call_sites(r"CelValue::from_err$") if "CelError::binding(" in mirq.expr_of(iq_, t_["args"][0])]
        if not bes_:
            continue
        st_blocks_ = flag_stores(ib_, iq_)
        for k_, (i_, t_, p_) in enumerate(bes_):
            n_be += 1
            key_ = "%s|unbound read %d is marked" % (lib.short(ib_.path), k_)
            near_ = [s_ for s_ in st_blocks_ if ib_.dominates(s_, i_) and i_ in iq_.reach(s_)]
            # the store may also follow the construction of the failure on the same straight line
            cur_, seen_ = i_, 0
            while not near_ and seen_ < 6:
                su_ = [y_ for y_ in ib_.succs(cur_) if not ib_.blocks[y_].get("cleanup")]
                if len(su_) != 1:
                    break
                cur_ = su_[0]
                seen_ += 1
                if cur_ in st_blocks_:
                    near_ = [cur_]
            if near_:
                chk.ok("R09.8", key_)
            else:
                chk.bad("R09.8", key_, "%s yields the unbound-variable failure for a name without marking the evaluation as run-dependent: a compile-time run that absorbs the failed value "
                                       "(`1 in [x]`, `has`, `coalesce`, map `==`) is then frozen although binding the name changes the result" % lib.short(ib_.path), ib_.file)
    chk.floor("R09.8", "unbound-name failures of the interpreter", n_be, 1)
    # (d) child interpreters share the mark
    n_ch = 0
    for ib_ in sorted((x_ for x_ in F.bodies.values() if x_.pkg == "rscel" and x_.path.startswith(IPFX)), key=lambda x_: x_.path):
        par_ = [k_ for k_ in range(1, ib_.d["arg_count"] + 1) if "interp::Interpreter<" in ib_.local_ty(k_)]
        if not par_:
            continue
        iq_ = mirq.BodyQ(ib_)
        for i_, a_, v_, s_ in iq_.aggregates(adt_suffix="interp::Interpreter"):
            n_ch += 1
            ops_ = [mirq.expr_of(iq_, o_) for o_ in s_["rv"]["ops"]]
            key_ = "%s|child shares the mark" % lib.short(ib_.path)
            if flagK is not None and flagK < len(ops_) and any(ops_[flagK] == "p%d.%d" % (k_, flagK) for k_ in par_):
                chk.ok("R09.8", key_, ops_[flagK])
            else:
                chk.bad("R09.8", key_, "an interpreter created on behalf of another (macro bodies run in one) must share its parent's run-dependence mark; field is built from %s: "
                                       "`[1].map(e, 1 in [x])` would be frozen at compile time" % (ops_[flagK] if flagK is not None and flagK < len(ops_) else "nothing (no mark)"), ib_.file)
    chk.floor("R09.8", "child interpreter constructions", n_ch, 1)
    # (e) timestamp from no arguments, wherever the interpreter constructs a type value
    n_ct = 0
    for ib_ in sorted((x_ for x_ in F.bodies.values() if x_.pkg == "rscel" and x_.path.startswith(IPFX)), key=lambda x_: x_.path):
        iq_ = mirq.BodyQ(ib_)
        cts_ = iq_.call_sites(r"type_funcs::construct_type$")
        if not cts_:
            continue
        consts_ = set()
        for i_, t_ in ib_.calls():
            for o_ in t_["args"]:
                v_ = lib.op_const_str(o_)
                if v_:
                    consts_.add(v_)
        for pb_ in ib_.d.get("promoted") or []:
            for blk_ in pb_["blocks"]:
                for st2_ in blk_["stmts"]:
                    for o_ in lib.iter_operands(st2_):
                        v_ = lib.op_const_str(o_)
                        if v_:
                            consts_.add(v_)
        stores_ = flag_stores(ib_, iq_)
        for k_, (i_, t_, p_) in enumerate(cts_):
            n_ct += 1
            key_ = "%s|construction %d marks timestamp()" % (lib.short(ib_.path), k_)
            ex_ = [mirq.expr_of(iq_, a_) for a_ in t_["args"]]
            # the tests that decide the mark: a comparison of the SAME type name and an emptiness test of the SAME argument list, both before the construction
            name_tests_ = [j_ for j_, tj_, pj_ in iq_.call_sites(r"PartialEq.*::eq$|::eq$") if ex_ and mirq.expr_of(iq_, tj_["args"][0]) == ex_[0] and ib_.dominates(j_, i_)]
            empt_tests_ = [j_ for j_, tj_, pj_ in iq_.call_sites(r"::is_empty$|::len$") if len(ex_) > 1 and mirq.expr_of(iq_, tj_["args"][0]) == ex_[1]]
            good_ = False
            for s_ in stores_:
                for nt_ in name_tests_:
                    sw1_ = switch_after(ib_, nt_)
                    if sw1_ is None or not ib_.dominates(nt_, s_) or s_ not in iq_.reach(sw1_[0]) or s_ in iq_.reach(sw1_[1], blocked=[nt_]):
                        continue
                    for et_ in empt_tests_:
                        sw2_ = switch_after(ib_, et_)
                        if sw2_ is None or not ib_.dominates(et_, s_) or s_ not in iq_.reach(sw2_[0]) or s_ in iq_.reach(sw2_[1], blocked=[et_, nt_]):
                            continue
                        # name = timestamp and no arguments: the construction is reached through the mark only
                        if i_ in iq_.reach(s_) and (sw2_[0] == s_ or i_ not in iq_.reach(sw2_[0], blocked=[s_])):
                            good_ = True
            if good_ and "timestamp" in consts_:
                chk.ok("R09.8", key_)
            else:
                chk.bad("R09.8", key_, "%s constructs a value of a type named at run time; with the name `timestamp` and no arguments that reads the clock, and the evaluation is not marked "
                                       "as run-dependent: `type(timestamp('2020-01-01T00:00:00Z'))()`, `[timestamp][0]()` or `{'a': timestamp}.a()` are frozen to the compile-time instant "
                                       "(reads_clock only sees the spelling `timestamp` directly followed by a call)" % lib.short(ib_.path), ib_.file)
    chk.floor("R09.8", "type constructions in the interpreter", n_ct, 1)
    # ---------------- R09.9 reads_clock decided on concrete programs
    chk.rule("R09.9", "reads_clock(), executed symbolically on concrete code, answers true for every spelling that reaches the clock by name: `now` pushed anywhere (function form, "
                      "method form `x.now()`, as a value), `timestamp` called with no arguments, and each of these inside nested argument blocks")
    import symex as sx_
    BCT = "rscel::interp::types::bytecode::ByteCode"
    CVT_ = "rscel::types::cel_value::CelValue"
    CBCT = "rscel::types::cel_byte_code::CelByteCode"
    if not all(any(a_["path"] == p_ for a_ in F.adts.values()) for p_ in (BCT, CVT_, CBCT)):
        raise lib.MissingAnchor("ByteCode / CelValue / CelByteCode types")

    class ClockPolicy(_st.LogicPolicy):
        max_paths = 3000

        def limit_for(self, body, blk):
            return 12

        def inline(self, path, body):
            return "cel_byte_code" in path or "{closure" in path or path == rcb.path or _st.LogicPolicy.inline(self, path, body)

    def ident_(n_):
        return sx_.adt(BCT, "Push", (sx_.adt(CVT_, "Ident", (("s", n_),)),))

    def prog_(*cps_):
        return sx_.adt(CBCT, "CelByteCode", (("seq", tuple(cps_)),))

    def block_(*cps_):
        return sx_.adt(BCT, "Push", (sx_.adt(CVT_, "ByteCode", (prog_(*cps_),)),))
    call0_, call1_, acc_ = sx_.adt(BCT, "Call", (sx_.I(0),)), sx_.adt(BCT, "Call", (sx_.I(1),)), sx_.adt(BCT, "Access", ())
    utc_ = sx_.adt(BCT, "Push", (sx_.adt(CVT_, "String", (("s", "utc"),)),))
    one_ = sx_.adt(BCT, "Push", (sx_.adt(CVT_, "Int", (sx_.I(1),)),))
    base_ = {"now()": [ident_("now"), call0_], "'utc'.now()": [utc_, ident_("now"), acc_, call0_], "now (as a value)": [ident_("now")], "[1, now()]": [one_, ident_("now"), call0_],
             "now(1)": [one_, ident_("now"), call1_], "timestamp()": [ident_("timestamp"), call0_], "1, timestamp()": [one_, ident_("timestamp"), call0_]}
    progs_ = {}
    for k_, cps_ in base_.items():
        progs_[k_] = cps_
        progs_["f(%s)" % k_] = [block_(*cps_), ident_("f"), call1_]
        progs_["f(1, g(%s))" % k_] = [block_(block_(*cps_), ident_("g"), call1_), one_, ident_("f"), sx_.adt(BCT, "Call", (sx_.I(2),))]
    n_rc = 0
    for k_, cps_ in sorted(progs_.items()):
        n_rc += 1
        try:
            outs_ = sorted(set(sx_.render(r_) for s_, r_ in sx_.Interp(F, ClockPolicy()).run(rcb, [prog_(*cps_)])))
        except Exception as e_:
            outs_ = ["not executable: %s" % str(e_)[:80]]
        if outs_ == ["1"]:
            chk.ok("R09.9", "reads_clock|" + k_)
        else:
            chk.bad("R09.9", "reads_clock|" + k_, "reads_clock() answers %s for the code of `%s`: the call is then evaluated by the compiler and the compile-time instant is frozen into "
                                                  "the program" % (outs_, k_), rcb.file)
    chk.floor("R09.9", "concrete programs", n_rc, 21)
    chk.analysed = {"pairs": npairs, "roots": PAIR_ROOTS, "vm_ops": len(sem)}
    return chk.finish(
        "Fold / VM agreement decided by comparing, per operator template, the folder's term with the symbolic value of the emitted code under the VM arm semantics "
        "(both extracted from MIR by symbolic execution); operand-drop, clock, macro-table and embedded-failure clauses by template and CFG rules.",
        ["rustc MIR", "symex summaries", "CelValue operations are the same functions on both sides (resolved callees)"], ["default features"],
        technique="symbolic execution: folder term vs symbolic VM value of the emitted template, per operator")
