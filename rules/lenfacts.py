"""Slice-length facts: a forward dataflow over one MIR body (and, for private functions, over its call sites) that bounds the length of a
slice / Vec named by an expression over the function's parameters.  Abstract domain: subsets of {0, 1, ..., 8, BIG} (BIG = 9 or more), join = union.
Edges refine the set through `len(E) OP const` tests (Eq Ne Lt Le Gt Ge, either operand order) whose result feeds a SwitchInt.
Used to discharge `BoundsCheck` asserts with a constant index: the access `E[k]` cannot fail when every possible length exceeds k."""
import re
import lib, mirq

BIG = 9
TOP = frozenset(range(0, BIG + 1))
_LEN = re.compile(r"^(?:PtrMetadata|slice::len|Vec::len|len)\((.*)\)$")
_FLIP = {"Lt": "Gt", "Gt": "Lt", "Le": "Ge", "Ge": "Le", "Eq": "Eq", "Ne": "Ne"}


def slice_of(expr):
    m = _LEN.match(expr)
    return m.group(1) if m else None


def _holds(op, n, c):
    """does `n OP c` hold for the abstract length n (BIG stands for every length >= 9; c is small)"""
    if n == BIG:
        return {"Eq": None if c >= BIG else False, "Ne": None if c >= BIG else True, "Lt": False if c <= BIG else None, "Le": False if c < BIG else None,
                "Gt": True if c < BIG else None, "Ge": True if c <= BIG else None}[op]
    return {"Eq": n == c, "Ne": n != c, "Lt": n < c, "Le": n <= c, "Gt": n > c, "Ge": n >= c}[op]


def refine(s, op, c, truth):
    out = set()
    for n in s:
        h = _holds(op, n, c)
        if h is None or h == truth:
            out.add(n)
    return frozenset(out)


def edge_tests(b, q, slice_expr):
    """{(from block, to block): [(op, const, truth)]} for the tests of len(slice_expr) against constants"""
    tests = {}
    for blk, blkd in enumerate(b.blocks):
        t = blkd.get("term")
        if not t or t.get("k") != "switch":
            continue
        dl = lib.op_local(t["discr"])
        if dl is None:
            continue
        # the discriminant is a comparison computed in this block
        cmp_ = None
        for st in blkd["stmts"]:
            if st.get("k") == "assign" and st["place"].get("l") == dl and "p" not in st["place"] and st["rv"].get("k") == "binop" and st["rv"]["op"] in _FLIP:
                a_, b_ = st["rv"]["a"], st["rv"]["b"]
                ca, cb = lib.op_const_int(a_), lib.op_const_int(b_)
                if cb is not None and ca is None and slice_of(mirq.expr_of(q, a_)) == slice_expr:
                    cmp_ = (st["rv"]["op"], cb)
                elif ca is not None and cb is None and slice_of(mirq.expr_of(q, b_)) == slice_expr:
                    cmp_ = (_FLIP[st["rv"]["op"]], ca)
        if not cmp_:
            continue
        zero = [c_[1] for c_ in t["cases"] if int(c_[0]) == 0]
        one = [c_[1] for c_ in t["cases"] if int(c_[0]) == 1]
        f_t = zero[0] if zero else t["otherwise"]
        t_t = one[0] if one else t["otherwise"]
        if f_t == t_t:
            continue
        tests.setdefault((blk, t_t), []).append((cmp_[0], cmp_[1], True))
        tests.setdefault((blk, f_t), []).append((cmp_[0], cmp_[1], False))
    return tests


def lengths_at(b, slice_expr, entry=TOP):
    """possible lengths of slice_expr at the entry of every block: {block: frozenset}"""
    q = mirq.BodyQ(b)
    tests = edge_tests(b, q, slice_expr)
    fact = {0: frozenset(entry)}
    work = [0]
    while work:
        x = work.pop()
        for y in b.succs(x):
            if b.blocks[y].get("cleanup"):
                continue
            s = fact[x]
            for (op, c, truth) in tests.get((x, y), []):
                s = refine(s, op, c, truth)
            new = fact.get(y, frozenset()) | s
            if new != fact.get(y):
                fact[y] = new
                work.append(y)
    return fact


def address_taken(F, fid):
    """is the function named anywhere except as the callee of a call (fn pointer, registry entry, closure capture)?"""
    path = F.bodies[fid].path
    for b in F.bodies.values():
        for blkd in b.blocks:
            for it in list(blkd["stmts"]) + ([blkd["term"]] if blkd.get("term") else []):
                func = it.get("func") if it.get("k") == "call" else None
                for o in lib.iter_operands(it):
                    c = o.get("const")
                    if c and (c.get("res") == fid or c.get("fn") == fid) and o is not func and not (func and func.get("const") is c):
                        return True
    return False


def entry_lengths(F, cg, fid, param, depth=0):
    """possible lengths of slice parameter `param` (1-based local) of a private function, from ALL its call sites; TOP when callers are not all known"""
    b = F.bodies[fid]
    if depth > 3 or not str(b.d.get("vis", "")).startswith("Restricted") or address_taken(F, fid):
        return TOP
    callers = [x for x, ys in cg.edges.items() if fid in ys and x in F.bodies]
    if not callers:
        return TOP
    out = frozenset()
    for x in callers:
        cb = F.bodies[x]
        cq = mirq.BodyQ(cb)
        for blk, t in cb.calls():
            if lib.callee_of(t)[0] != fid:
                continue
            if param - 1 >= len(t.get("args", [])):
                return TOP
            e = mirq.expr_of(cq, t["args"][param - 1])
            m = re.match(r"^p(\d+)$", e)
            ent = entry_lengths(F, cg, x, int(m.group(1)), depth + 1) if m else TOP
            fact = lengths_at(cb, e, ent)
            out |= fact.get(blk, TOP)
    return out or TOP


def constant_index_safe(F, cg, b, assert_term, blk):
    """a BoundsCheck assert `index < len(E)` with a constant index that cannot fail; returns the reason text or None"""
    msg = assert_term.get("msg", {})
    if msg.get("ak") != "BoundsCheck":
        return None
    q = mirq.BodyQ(b)
    k = lib.op_const_int(msg.get("index", {}))
    if k is None:
        ke = mirq.expr_of(q, msg["index"])
        if not re.match(r"^\d+$", ke):
            return None
        k = int(ke)
    sl = slice_of(mirq.expr_of(q, msg["len"]))
    if sl is None:
        return None
    m = re.match(r"^p(\d+)$", sl)
    ent = entry_lengths(F, cg, b.id, int(m.group(1))) if m else TOP
    fact = lengths_at(b, sl, ent).get(blk)
    if fact is None:
        return "unreachable"
    if all((n == BIG and k < BIG) or (n != BIG and n > k) for n in fact):
        return "index %d of %s whose length is in %s here (length tests on every path%s)" % (k, sl, sorted("9+" if n == BIG else n for n in fact), "" if ent == TOP else ", incl. those of all callers")
    return None
